"""Run an engine function over run indices in-process with a per-run wall alarm; print signature counts.
usage: tools_survey.py <module.fn> <property> <n runs> [seed] [first run]"""
import faulthandler, signal, sys, time, traceback
sys.path.insert(0, "/verif")
from collections import Counter
import importlib
modfn, prop, n = sys.argv[1], sys.argv[2], int(sys.argv[3])
seed = int(sys.argv[4]) if len(sys.argv) > 4 else 1
first = int(sys.argv[5]) if len(sys.argv) > 5 else 0
mod, fn = modfn.rsplit(".", 1)
fn = getattr(importlib.import_module("simrtc.engines." + mod), fn)
class TO(BaseException): pass
def alarm(sig, frm):
    traceback.print_stack(frm, limit=12)
    raise TO()
signal.signal(signal.SIGALRM, alarm)
c = Counter(); ex = {}; pr = Counter()
t = time.time()
for run in range(first, first + n):
    signal.setitimer(signal.ITIMER_REAL, 20)
    try:
        res = fn({"property": prop, "seed": seed, "run": run})
    except TO:
        print("TIMEOUT in run", run); c["TIMEOUT"] += 1; ex.setdefault("TIMEOUT", (run,)); continue
    finally:
        signal.setitimer(signal.ITIMER_REAL, 0)
    sig = res.get("signature") or res["verdict"]
    if res["verdict"] == "harness_error": sig = "HARNESS:" + (res.get("detail") or "")[-300:]
    c[sig] += 1; ex.setdefault(sig, (run, (res.get("detail") or "")[:300], res.get("config_class")))
    pr.update(res.get("probes") or {})
print("%.1fs" % (time.time() - t))
for k, v in c.most_common(): print(v, k, ex[k])
print(dict(pr))
