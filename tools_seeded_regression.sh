#!/bin/bash
# usage: tools_seeded_regression.sh <scratch worktree> <budget_s> [<seeded id prefix> ...]
# Re-applies every kept seeded change to a scratch worktree at /repo's HEAD (never in /repo) and runs the check of the
# property it breaks: CAUGHT / MISSED / NOAPPLY per change.  (Changes written against an older tree may not apply any more.)
WT="$1"; B="$2"; shift 2
cd /verif
for d in seeded/S*; do
  id=$(basename $d)
  if [ $# -gt 0 ]; then ok=0; for p in "$@"; do case $id in $p*) ok=1;; esac; done; [ $ok = 1 ] || continue; fi
  prop=$(/venv/bin/python -c "import json;print(json.load(open('$d/meta.json'))['breaks_property'])")
  patch=$d/patch.diff; [ -f $d/patch.rebased.diff ] && patch=$d/patch.rebased.diff
  (cd $WT && git checkout -q -- src && git checkout -q --detach $(git -C /repo rev-parse HEAD))
  if ! (cd $WT && git apply --check /verif/$patch 2>/dev/null); then echo "$id $prop NOAPPLY"; continue; fi
  (cd $WT && git apply /verif/$patch)
  out=$(AIORTC_SRC=$WT/src VERIF_BUDGET_S=$B VERIF_NO_MINIMISE=1 ./check $prop quick 2>&1); rc=$?
  sig=$(echo "$out" | grep -m1 "^violation:" | cut -c1-120)
  if [ $rc -eq 1 ]; then echo "$id $prop CAUGHT $sig"; else echo "$id $prop MISSED rc=$rc"; fi
  (cd $WT && git checkout -q -- src)
done
