#!/bin/bash
# usage: tools_try_mutant.sh <scratch worktree> <patch.diff> <budget_s> <prop> [<prop> ...]
# Applies the patch in the scratch worktree (never in /repo), runs ./check <prop> quick against it via
# AIORTC_SRC, reverts.  Prints one line per property: CAUGHT / MISSED.
WT="$1"; P="$2"; B="$3"; shift 3
cd "$WT" && git checkout -q -- src && git checkout -q --detach $(git -C /repo rev-parse HEAD) && git apply "$P" || { echo "patch failed"; exit 2; }
cd /verif
for prop in "$@"; do
  out=$(AIORTC_SRC=$WT/src VERIF_BUDGET_S=$B VERIF_MIN_BUDGET=40 ./check $prop quick 2>&1)
  rc=$?
  sig=$(echo "$out" | grep -m3 "^violation:" | tr '\n' ';')
  if [ $rc -eq 1 ]; then echo "CAUGHT $prop rc=$rc $sig"; else echo "MISSED $prop rc=$rc $(echo "$out" | tail -1)"; fi
done
cd "$WT" && git checkout -q -- src
