#!/bin/bash
# usage: tools_soak.sh <budget_s per check> <seed> [<seed> ...]   (background soak; prints one line per check and seed)
B="$1"; shift
cd "$(dirname "$0")"
for seed in "$@"; do
  for p in $(/venv/bin/python -c "import json;print(' '.join(c['property_id'] for c in json.load(open('MANIFEST.json'))['checks']))"); do
    out=$(VERIF_SEED=$seed VERIF_BUDGET_S=$B VERIF_WORKERS=${SOAK_WORKERS:-8} VERIF_MIN_BUDGET=60 ./check $p quick 2>&1)
    rc=$?
    echo "seed=$seed $p rc=$rc $(echo "$out" | grep -v WARNING | tail -1)"
    if [ $rc -ne 0 ]; then echo "$out" | grep -v WARNING | grep "violation:\|detail:\|VIOLATION\|HARNESS" | head -12; fi
  done
done
