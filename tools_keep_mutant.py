"""Keep a confirmed seeded change under /verif/seeded/<id>/.
usage: tools_keep_mutant.py <id> <property> <src dir with patch.diff demo.py notes.md> <json: {"needs":..., "confirmed":..., "checks":{...}}>"""
import json, os, shutil, sys
sid, prop, src, extra = sys.argv[1], sys.argv[2], sys.argv[3], json.loads(sys.argv[4])
dst = os.path.join("/verif/seeded", sid)
os.makedirs(dst, exist_ok=True)
for f in ("patch.diff", "demo.py", "notes.md"):
    if os.path.exists(os.path.join(src, f)):
        shutil.copy(os.path.join(src, f), os.path.join(dst, f))
meta = {"id": sid, "breaks_property": prop, "origin": "written by an independent sub-agent given only the property text and a scratch worktree",
        "applies_to_repo_commit": os.popen("git -C /repo rev-parse --short HEAD").read().strip()}
meta.update(extra)
json.dump(meta, open(os.path.join(dst, "meta.json"), "w"), indent=1)
print("kept", dst)
