"""Regenerate MANIFEST.json from one place (run: /venv/bin/python tools_manifest.py)."""
import json
import subprocess

NOTE_SIM = ("trusted base: the simulator itself (SimLoop virtual-time scheduler, SimNet, Choices), the reference "
            "models in the oracles, CPython; seeded sampling of schedules x fault sequences x workloads - a clean batch "
            "is evidence, not proof")

CHECKS = {
    "C01": dict(engine="sctp_sim", design="10/C01", technique="deterministic simulation: seeded fault-injecting network + reference list model per channel, checked at every message event",
                text="Seeded exploration: two real RTCSctpTransports over a simulated lossy/duplicating/reordering network; every "
                     "delivered message is attributed to exactly one send() and the received sequence is checked against the sent "
                     "sequence (prefix / duplicate-free sub-multiset, value and type) at every message event, through heal and drain."),
    "C02": dict(engine="sctp_sim", design="10/C02", technique="deterministic simulation: finite fault prefix then heal; bounded-liveness oracle in virtual time plus post-quiescence burst probe",
                text="Seeded exploration of finite fault prefixes (loss, duplication, reordering, bursts, one-way blackouts, node stalls) "
                     "followed by a fault-free suffix: within 600 simulated seconds (+1 s per outstanding chunk) everything sent on reliable "
                     "channels is delivered, all queues are empty and bufferedAmount is 0; then a fresh burst of 4x the window must get through."),
    "C06": dict(engine="sctp_sim", design="10/C06", technique="deterministic simulation: mixed reliable / partially reliable channels under faults; subsequence + exactly-once + non-interference + recovery oracles",
                text="Seeded exploration with reliable and partially reliable channels used concurrently (maxRetransmits 0/1/3, lifetimes "
                     "1-3000 ms, ordered/unordered, messages larger than the window): delivered messages are exact duplicate-free copies in "
                     "order; reliable channels still satisfy C01/C02; a fresh message per PR channel after recovery must arrive."),
    "C08": dict(engine="sctp_sim", design="10/C08", technique="deterministic simulation: wire monitor (parse/re-serialise every emitted packet) + corrupted-datagram monitor inside simulated runs",
                text="Partial: inside simulated runs every SCTP packet an endpoint emits is parsed back and re-serialised to identical bytes; "
                     "datagrams altered in transit by a 1-32 bit burst never reach chunk processing. Packets no simulated endpoint emits are "
                     "a pure-function question outside this technique."),
    "C13": dict(engine="sctp_sim", design="10/C13", technique="deterministic simulation: programs of create/send/close/re-use ops at arbitrary times under faults; lifecycle state-machine + bufferedAmount reference model checked after every handle",
                text="Seeded exploration of create/send/close/id-reuse programs by both sides (close in the same tick as creation, before the id "
                     "exists, before the ACK; Unicode labels; all reliability settings; negotiated pairs) under datagram faults: datachannel "
                     "event fidelity, forward-only readyState with single open/close events, both ends closed after close(), id reusable, "
                     "all channels closed at association end, bufferedAmount == accepted - handed after every scheduler step."),
    "C10": dict(engine="history_sim", design="10/C10", technique="deterministic simulation: generated RTP stream through a seeded faulty network into the real JitterBuffer; per-add() reference oracle over the recorded arrival history",
                text="Seeded exploration of arrival histories (loss, duplication, reordering, sender jumps, origins at the 16/32-bit wrap, "
                     "capacities 4-128, prefetch 0-4, audio/video): every released frame is the concatenation of received, consecutive, "
                     "same-timestamp packets; no packet reused and frames in order while nothing arrived >=100 positions late; occupancy "
                     "bounded; never raises; key-frame request whenever held packets are discarded (video); for complete streams whose "
                     "displacement fits the ring every frame is released exactly once (after an in-order drain tail)."),
    "C12": dict(engine="history_sim", design="10/C12", technique="deterministic simulation: register/unregister operations interleaved by scheduler and network with RTP/RTCP packets; dict-based reference router compared at every routing decision",
                text="Seeded exploration of histories of receiver/sender registrations and unregistrations (overlapping payload types, SSRC "
                     "latching, re-registration) interleaved with RTP and RTCP packets of every type delivered by a delaying/reordering/"
                     "duplicating network: each route_rtp()/route_rtcp() result equals the reference router's; nothing is ever routed to an "
                     "unregistered party. An SSRC registered by two receivers at once is judged leniently (the statement does not order "
                     "them); a registration decides over an SSRC that had merely stuck to another receiver. In transport mode (30 % of runs) "
                     "serialised RTP and compound RTCP datagrams go through RTCDtlsTransport's own handlers one at a time, the handling of a "
                     "NACK suspends, registrations change meanwhile, and no party may be handed a packet while it is not registered."),
    "C15": dict(engine="history_sim", design="10/C15", technique="deterministic simulation: traffic segments through a bottleneck-queue network model and a sender clock with arbitrary origin into the real RemoteBitrateEstimator; sliding-window reference and bound oracles per arrival",
                text="Seeded exploration of arrival histories (10-3000 pps, sizes 0-1500, idle gaps around and beyond the 1 s window, bursts, "
                     "bottleneck squeezes that ramp delay, 24-bit abs-send-time wrap, several SSRCs, loss/duplication/reordering): add() never "
                     "raises; every estimate is a non-negative int that REMB encodes, listing exactly the SSRCs seen; an estimate that rises is "
                     "<= 1.5 x measurement + 10 kbit/s; on over-use <= 85 % of the measurement; the measurement equals the bits of exactly the "
                     "packets of the last 1000 ms over the running part of that window."),
    "C18": dict(engine="history_sim", design="10/C18", technique="deterministic simulation: generated RTP streams through a seeded faulty network and a jumping wall clock into a real RTCRtpReceiver; every receiver report its RTCP task puts on the wire is compared with an RFC 3550 reference fed the same arrivals",
                text="Seeded exploration of per-SSRC arrival histories (loss, duplication, reordering, sequence jumps up to 32000, several "
                     "sequence cycles, timestamp jumps and 2^32 wrap, wall-clock jumps) into a real RTCRtpReceiver (audio and video) whose own "
                     "RTCP task reports at its seeded intervals: fraction lost, cumulative lost (24-bit clamp), extended highest sequence and "
                     "jitter of every report block on the wire equal the RFC 3550 A.1/A.3/A.8 reference; the report task never dies; getStats agrees."),
    "C17": dict(engine="diff_sim", design="10/C17", technique="deterministic differential simulation: one workload and one recorded decision trace executed with small origins and with origins at the wrap point; origin-normalised event logs must be identical",
                text="Seeded exploration of run PAIRS: SCTP associations (C01/C02/C06/C13 workloads and fault schedules; TSN, re-config and "
                     "stream sequence numbers), jitter-buffer histories and receiver-statistics histories (RTP sequence numbers and timestamps) "
                     "are executed once with small origins and once with origins within a few hundred of the wrap, replaying the same recorded "
                     "network/scheduler decisions; every event (datagram summaries with origin-relative sequence fields, deliveries, state "
                     "changes, released frames, report blocks) must coincide and the wrapped run must satisfy its own property's oracle. The "
                     "exhaustive serial-arithmetic sub-claim is a pure function and is not decided here.",
                note="NACK generation and the sender's retransmission history are covered by the C11 runs that start at the wrap, not by a pair"),
    "C11": dict(engine="media_sim", design="10/C11", technique="deterministic simulation: real sender -> real DTLS/SRTP -> real receiver over a seeded faulty network; decoder-seam tap compared byte-for-byte with the sender's own packetised frames; bounded-liveness oracle when feedback and retransmissions get through",
                text="Seeded exploration of loss/duplication/reordering schedules on the media path (RTP, RTCP feedback and retransmissions "
                     "alike in safety runs; first transmissions only in liveness runs), frames of 1-8 packets, VP8 and H.264, RTX negotiated or "
                     "not, sequence/timestamp origins anywhere incl. just before the wrap: every frame handed to the decoder is byte-identical "
                     "to a sent frame (or a packet-aligned tail right after start/discard), in sending order; retransmissions are RTX copies of "
                     "the original when negotiated, verbatim otherwise; a NACK lists <=128 packets; nothing kills a transport or a media task; "
                     "in liveness runs every frame is eventually delivered."),
    "C04": dict(engine="media_sim", design="10/C04", technique="deterministic simulation: pairs of real RTCDtlsTransports over the simulated network with generated fingerprint lists, SRTP profile lists and roles; expected verdict from hashlib; delivery oracle under delay and bit-burst corruption",
                text="Seeded exploration of configurations (fingerprint lists: subsets/permutations of sha-256/384/512, case variants, values "
                     "differing in one hex digit / a leading part of the digest / the digest plus an octet / empty, unsupported algorithms, mixtures; SRTP profile preference lists on each side; explicit and ICE-derived "
                     "roles): each side ends connected iff >=1 supported fingerprint is listed, all supported ones match the peer certificate "
                     "(case-insensitively) and the profile lists intersect, otherwise failed, refusing sends and delivering nothing; when both "
                     "connect, RTP, RTCP and data sent in both directions arrive field-for-field unless altered in transit, and nothing altered "
                     "is delivered."),
    "C03": dict(engine="pc_sim", design="10/C03", technique="deterministic simulation: pairs of real RTCPeerConnections over simulated ICE/network/signalling, configurations drawn from the product space; SDP judged by an independent line-regex reader; connectivity and data-channel round trips under virtual time",
                text="Seeded exploration of configurations (offerer: 0-3 media items x kind x direction x addTrack / addTransceiver(kind) / "
                     "addTransceiver(track), data channel before or after media, codec preference lists with/without RTX, bundle policy; "
                     "answerer: pre-created items, data channel, preferences, bundle policy; 0-2 follow-up negotiations adding media or a data "
                     "channel from either side): all four negotiation calls succeed (OperationError only when the harness's own codec "
                     "intersection is empty), both ends stable, answer mirrors the offer (sections, mids, BUNDLE; codecs/payload types, RTX "
                     "with its base, rtcp-fb, extmap ids all within the offer; definite DTLS role), current directions complementary, both "
                     "sides connect and every negotiated data channel carries a message each way."),
    "C14": dict(engine="pc_sim", design="10/C14", technique="deterministic simulation: generated call programs on a real pair of peer connections (background connect tasks interleaving under the seeded scheduler) judged call by call against a JSEP reference table with pre/post snapshots",
                text="Seeded exploration of programs (<=18 calls) over createOffer / createAnswer / setLocalDescription (offer, stale offer, "
                     "answer, stale answer, mismatched answer, implicit) / setRemoteDescription (offer, answer, mismatched answer, defective "
                     "descriptions lacking ufrag, pwd, rtcp-mux or a definite role) / close on either peer: legal calls succeed and move "
                     "signalingState as the table says; calls illegal in the state raise InvalidStateError, mismatched or defective "
                     "descriptions ValueError; after either, signalingState and both descriptions equal their pre-call snapshot; closed is "
                     "absorbing. Configurations are kept to ones C03 shows negotiable so that a C03 defect is not re-reported here."),
    "C19": dict(engine="pc_sim", design="10/C19", technique="deterministic simulation with enumerated crash points: close() injected at scheduler step k of a full-stack scenario, k stratified over the scenario's measured length plus systematic sweeps; post-close oracle on states, channels, tracks, events, tasks (by node context) and decoder threads",
                text="Fault enumeration over the close point: scenarios drawn from the C03 space (negotiation with signalling delay, "
                     "connection, media from endless and finite tracks, data both ways, optional re-negotiation) are executed with close() "
                     "injected at scheduler step k - 64 strata per scenario over its measured length, and in the systematic part every "
                     "stride-th step of a few scenarios (every step in the thorough tier) - by either side, both at once or staggered, "
                     "twice in a row, and after the remote side vanished: close() completes within 120 simulated seconds, a further "
                     "close() is a no-op, signalling/ICE/connection states are closed, every data channel closed, every received track "
                     "ended (its consumer got MediaStreamError), no event fires afterwards, no aiortc task of that node is pending and "
                     "no decoder thread is alive after a 3 s grace period."),
    "C05": dict(engine="hostile_sim", design="10/C05 + Appendix A", technique="deterministic simulation with an enumerated fault class x protocol state product: a forging actor injects byte-level built datagrams (raw, or authenticated through the peer's real DTLS/SRTP) into a full real receive path at generated points of a session; liveness of the receive loop and tasks, a line-count cost meter, and post-injection round trips are the oracle",
                text="Fault enumeration: 82 datagram classes (raw bytes of every first-byte range, damaged ciphertext; SCTP packets with "
                     "correct CRC and verification tag: unknown/truncated chunks, parameter lengths 0/odd/overlong, SACK gap blocks "
                     "inverted/overlapping/16-bit extremes/hundreds, counts beyond the body, FORWARD-TSN stream lists, RE-CONFIG parameters "
                     "of every type and truncation, bundled chunks, bundled INIT, DCEP garbage and invalid UTF-8 on unused and live streams, "
                     "every PPID; RTP/RTCP through SRTP: header-extension forms with wrong lengths, padding/CSRC extremes, short RTX, every "
                     "RTCP type with count/length mismatches, REMB/NACK extremes, codec payload truncations) are swept against the "
                     "protocol states a session passes through (DTLS handshake in progress, before SCTP start, COOKIE-WAIT/ECHOED, "
                     "established idle / with data outstanding on the peer's or on the victim's own side - reliable or partially reliable - "
                     "media flowing) and then sampled with seeded field values: the victim's DTLS "
                     "receive loop and every media task stay alive, handling one forged datagram costs < 1e6 + 2000*len executed lines and allocates < 8 MB + 4000*len bytes at peak, "
                     "and after void datagrams a fresh data-channel round trip and continued frame delivery succeed. Codec payloads: a live audio stream "
                     "and a second video stream carry genuinely encoded frames to the receiver's real decoder worker (a real thread behind a "
                     "baton queue); nonsensical payloads (empty, one byte, garbage, truncated, oversized; undecodable inter frames) must leave "
                     "the decoder thread alive and decoding - audio keeps being decoded, video keeps up with the codec library fed the same frames." ),
}

NOT_APPLICABLE = [
    {"property_id": "C07", "reason": "pure function of its input (RTP/RTCP serialise/parse round trip): no schedule, clock, fault or interleaving for a simulator to own"},
    {"property_id": "C09", "reason": "pure function of a description or a text (SDP parse/serialise round trip): no schedule, clock, fault or interleaving"},
    {"property_id": "C16", "reason": "pure function of a byte string (packetise/depacketise): no schedule, clock, fault or interleaving"},
]

LEVELS = {"C05": "fault_enumeration", "C19": "fault_enumeration"}

ENGINES = [
    {"name": "hostile_sim", "path": "simrtc/engines/hostile_sim.py", "serves_properties": ["C05", "C08"],
     "kind_free_text": "victim endpoint with the full real receive path (DTLS loop, SCTP + channels, video receiver, sender with feedback) and a peer = real stack + byte-level forging actor, over SimIceConnection/SimNet; virtual time"},
    {"name": "pc_sim", "path": "simrtc/engines/pc_sim.py", "serves_properties": ["C03", "C14", "C19"],
     "kind_free_text": "two real RTCPeerConnections (full stack) over SimIceConnection/SimNet with an in-simulation signalling channel; virtual time, seeded scheduler"},
    {"name": "media_sim", "path": "simrtc/engines/media_sim.py", "serves_properties": ["C11", "C04"],
     "kind_free_text": "real RTCRtpSender -> real RTCDtlsTransport pair (OpenSSL DTLS, libsrtp) over SimIceConnection/SimNet -> real RTCRtpReceiver, decoder seam tapped; virtual time"},
    {"name": "diff_sim", "path": "simrtc/engines/diff_sim.py", "serves_properties": ["C17"],
     "kind_free_text": "pairs of sctp_sim / history_sim runs that differ only in sequence-number origins, compared event by event"},
    {"name": "history_sim", "path": "simrtc/engines/history_sim.py", "serves_properties": ["C10", "C12", "C15", "C18", "C17"],
     "kind_free_text": "real JitterBuffer / RemoteBitrateEstimator / RTCRtpReceiver statistics and RTCP task / RtpRouter fed by a generated sender through SimNet under SimLoop (virtual time); reference models compared event by event"},
    {"name": "sctp_sim", "path": "simrtc/engines/sctp_sim.py", "serves_properties": ["C01", "C02", "C06", "C08", "C13", "C17"],
     "kind_free_text": "two real RTCSctpTransports + RTCDataChannels over a stub DTLS on SimNet under SimLoop (virtual time, seeded scheduler)"},
]


def main():
    try:
        commits = subprocess.run(["git", "-C", "/repo", "log", "--format=%h", "--grep=^hook:", "525751d..HEAD"],
                                 capture_output=True, text=True).stdout.split()
    except Exception:  # noqa
        commits = []
    checks = []
    for pid in sorted(CHECKS):
        c = CHECKS[pid]
        checks.append({
            "property_id": pid,
            "quick_cmd": "./check %s quick" % pid,
            "thorough_cmd": "./check %s thorough" % pid,
            "evidence_file": "/verif/evidence/%s.json" % pid,
            "replay_cmd_template": "./check %s --replay {path}" % pid,
            "engine": c["engine"],
            "level_claimed": {"category": LEVELS.get(pid, "exploration"), "text": c["text"], "design_ref": "DESIGN.md section " + c["design"]},
            "level_note": NOTE_SIM + (". " + c["note"] if c.get("note") else ""),
            "technique": c["technique"],
        })
    claimed = set(CHECKS)
    na = list(NOT_APPLICABLE)
    import json as _j
    allp = [_j.loads(l)["id"] for l in open("/verif/properties.jsonl") if l.strip()]
    for pid in allp:
        if pid not in claimed and not any(x["property_id"] == pid for x in na):
            na.append({"property_id": pid, "reason": "not claimed yet: the simulation engine for this property (see DESIGN.md section 10) "
                       "is not built or not yet sound on the unchanged tree; nothing is asserted about it"})
    na.sort(key=lambda x: x["property_id"])
    m = {
        "version": 1,
        "setup_cmd": "/venv/bin/python -c \"import sys; sys.path.insert(0,'/verif'); import simrtc.cli, simrtc.props; import aiortc, hypothesis; print('setup ok')\"",
        "hooks": {
            "guard": "AIORTC_VERIF",
            "enable": "none needed: every seam is a module-level name rebound by the harness at run time (time.time, os.urandom, random, aiortc.clock.current_datetime, aiortc.rtcicetransport.Connection, random32 per module); checks import aiortc from /repo/src (or $AIORTC_SRC), so they always run the current working tree",
            "baseline_off_cmd": "cd /repo && /venv/bin/python -m pytest -ra -q -p no:cacheprovider --timeout=900 --continue-on-collection-errors",
            "source_commits": commits,
            "add_only": True,
        },
        "engines": [e for e in ENGINES if set(e["serves_properties"]) & claimed],
        "checks": checks,
        "not_applicable": na,
        "notes": "All checks: deterministic simulation with fault injection (DESIGN.md). `./check <id> quick|thorough`, `./check <id> --replay <file>`. Genuine defects found are repaired by `fix:` commits in /repo or listed in known_findings.json.",
    }
    with open("/verif/MANIFEST.json", "w") as f:
        json.dump(m, f, indent=1)
    print("wrote MANIFEST.json with", len(checks), "checks")


if __name__ == "__main__":
    main()
