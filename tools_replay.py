"""Replay a file in-process (any engine), printing the whole event log; development aid.
usage: tools_replay.py <replay.json>   (pipe through grep/tail)"""
import json, sys
sys.path.insert(0, "/verif")
from simrtc.seams import setup_import_path
setup_import_path()
from simrtc.props import REGISTRY
from simrtc import eventlog
r = json.load(open(sys.argv[1]))
entry = REGISTRY[r["property"]]()
spec = dict(entry.get("spec", {}), property=r["property"], seed=r.get("seed", 0), run=r.get("run", 0), replay=r)
_add = eventlog.EventLog.add
def add(self, kind, *fields):
    _add(self, kind, *fields)
    print(self.tail[-1])
eventlog.EventLog.add = add
res = entry["fn"](spec)
print(res["verdict"], res.get("signature"), res.get("detail"))
