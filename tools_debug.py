"""Replay a file in-process and drop into inspection code (development aid)."""
import json, sys
sys.path.insert(0, "/verif")
from simrtc.engines import sctp_sim
from simrtc import seams
r = json.load(open(sys.argv[1]))
spec = {"property": r["property"], "seed": r.get("seed", 0), "run": r.get("run", 0), "profile": r.get("profile"), "replay": r}
captured = {}
orig_finish = sctp_sim.finish
def finish(world, *a):
    captured["world"] = world
    for side in "AB":
        s = world.sctp[side]
        print(side, "state", s._association_state, "cwnd", s._cwnd, "flight", s._flight_size, "ssthresh", getattr(s, "_ssthresh", None),
              "fast_rec", s._fast_recovery_exit, "frt", s._fast_recovery_transmit, "t3", s._t3_handle is not None, "rto", s._rto)
        print("  last_sacked", s._last_sacked_tsn, "local_tsn", s._local_tsn, "last_received", s._last_received_tsn, "misordered", sorted(s._sack_misordered)[:10])
        print("  sent_queue", [(c.tsn, c.stream_id, c.stream_seq, c.flags, "acked" if c._acked else "", "rtx" if c._retransmit else "", "aband" if c._abandoned else "", c._sent_count, c._misses) for c in list(s._sent_queue)[:12]])
        print("  outbound", [(c.tsn, c.stream_id, c.stream_seq, c.flags) for c in list(s._outbound_queue)[:8]], "dcq", len(s._data_channel_queue))
        for sid, st in s._inbound_streams.items():
            if st.reassembly:
                print("  inbound", sid, "seq", st.sequence_number, [(c.tsn, c.stream_seq, c.flags) for c in st.reassembly[:12]])
        print("  reconfig", s._reconfig_queue, s._reconfig_request, "fwd", s._forward_tsn_chunk)
    return orig_finish(world, *a)
sctp_sim.finish = finish
res = sctp_sim.run(spec)
print(res["verdict"], res.get("signature"), res.get("detail"))
