"""./check <id> quick|thorough   |   ./check <id> --replay <file>

exit 0: property held on everything explored (known findings are printed as
KNOWN-FINDING lines); exit 1: `VIOLATION property=<id> replay=<path>`;
exit 2: harness error (never counted as a pass, never printed as VIOLATION).
"""

import json
import os
import sys
import time

ROOT = os.path.dirname(os.path.dirname(os.path.abspath(__file__)))
DEFAULT_SEED = 20260921


def _reexec_hashseed():
    if os.environ.get("PYTHONHASHSEED") != "0":
        env = dict(os.environ, PYTHONHASHSEED="0")
        os.execve(sys.executable, [sys.executable] + sys.argv, env)


def write_evidence(prop, entry, tier, seed, agg, wall, new_violations, known_hit, extra_cov=None):
    os.makedirs(os.path.join(ROOT, "evidence"), exist_ok=True)
    never = [p for p in entry.get("probes_expected", []) if not agg.probes.get(p)]
    cov = {
        "evaluations": agg.runs,
        "distinct_nontrivial": len(agg.digests),
        "rule": entry["rule"],
        "samples": agg.samples[:3] or [{"note": "no nontrivial sample in this batch"}],
        "runs_ok": agg.ok,
        "runs_nontrivial": agg.nontrivial,
        "runs_per_hour": int(agg.runs / wall * 3600) if wall > 0 else 0,
        "seeds": {"VERIF_SEED": seed, "first_run_index": agg.first_run, "last_run_index": agg.last_run},
        "simulated_seconds": round(agg.sim_seconds, 1),
        "scheduler_steps": agg.steps,
        "fault_counts": dict(agg.faults),
        "probes": dict(agg.probes),
        "probes_never_hit": never,
        "exemptions": dict(agg.exempt),
        "configurations": dict(agg.configs),
        "abstract_states": len(agg.states),
        "abstract_transitions": len(agg.transitions),
        "abstract_state_measure": entry.get("state_measure", ""),
        "components": entry["components"],
        "known_findings_hit": known_hit,
        "harness_errors": agg.harness_error_count,
        "harness_error_samples": agg.harness_errors[:3],
        "violation_signatures": dict(agg.violation_count),
    }
    if extra_cov:
        cov.update(extra_cov)
    ev = {
        "property_id": prop,
        "tier": tier,
        "seed": seed,
        "level": entry["level"],
        "coverage": cov,
        "assumptions": entry["assumptions"],
        "wall_s": round(wall, 2),
        "violations": len(new_violations),
    }
    path = os.path.join(ROOT, "evidence", prop + ".json")
    tmp = path + ".tmp"
    with open(tmp, "w") as f:
        json.dump(ev, f, indent=1, default=str)
    os.replace(tmp, path)
    return path


def save_replay(prop, seed, replay, suffix=""):
    os.makedirs(os.path.join(ROOT, "replays"), exist_ok=True)
    import hashlib
    sig = hashlib.sha1(replay["expect"]["signature"].encode()).hexdigest()[:10]
    name = "%s-%s-%s-%s%s.json" % (prop, seed, replay.get("run"), sig, suffix)
    path = os.path.join(ROOT, "replays", name)
    with open(path, "w") as f:
        json.dump(replay, f, indent=0, default=str)
    return path


def do_replay(prop, entry, path):
    from .runner import fork_run
    with open(path) as f:
        replay = json.load(f)
    from . import findings
    known = findings.known_for(prop)
    known_sigs = sorted({x for f in known for x in (f.get("signatures") or [f.get("signature")])})
    # (as in exploration: of several violations in one run, one that is not a known finding is reported first)
    spec = dict(entry.get("spec", {}), property=prop, seed=replay.get("seed", 0), run=replay.get("run", 0),
                replay=replay, known_signatures=known_sigs)
    res = fork_run(entry["fn"], spec)
    exp = replay.get("expect", {})
    print("replay verdict=%s signature=%s digest=%s" % (res.get("verdict"), res.get("signature"), res.get("digest")))
    print("expected signature=%s digest=%s" % (exp.get("signature"), exp.get("digest")))
    if res.get("verdict") == "violation":
        print("detail: %s" % res.get("detail"))
        same = res.get("signature") == exp.get("signature") and res.get("digest") == exp.get("digest")
        print("reproduced exactly: %s" % same)
        f = findings.match(prop, res.get("signature"), known)
        if f is not None:
            print("KNOWN-FINDING: property=%s %s (signature %s)" % (prop, f.get("what"), res.get("signature")))
            return 0
        print("VIOLATION property=%s replay=%s" % (prop, path))
        return 1
    if res.get("verdict") in ("harness_error", "wall_timeout"):
        print("HARNESS-ERROR %s" % res.get("detail"))
        return 2
    return 0


def main(argv=None):
    _reexec_hashseed()
    argv = list(sys.argv[1:] if argv is None else argv)
    if len(argv) < 2:
        print(__doc__)
        return 2
    from .seams import setup_import_path
    src = setup_import_path()
    from .props import REGISTRY
    prop = argv[0].upper()
    if prop not in REGISTRY:
        print("unknown or unclaimed property %s" % prop)
        return 2
    entry = REGISTRY[prop]()
    if argv[1] == "--replay":
        return do_replay(prop, entry, argv[2])
    if argv[1] == "--minimise":
        from .minimise import Minimiser
        with open(argv[2]) as f:
            replay = json.load(f)
        m = Minimiser(entry["fn"], dict(entry.get("spec", {}), property=prop), replay,
                      budget=int(os.environ.get("VERIF_MIN_BUDGET", 300)), log=print)
        final = m.run()
        path = save_replay(prop, final.get("seed"), final, ".min")
        print("minimised replay:", path)
        return 0
    tier = argv[1]
    if tier not in ("quick", "thorough"):
        print(__doc__)
        return 2
    seed = int(os.environ.get("VERIF_SEED", DEFAULT_SEED))
    budget = float(os.environ.get("VERIF_BUDGET_S", entry["quick_s"] if tier == "quick" else entry["thorough_s"]))
    max_runs = int(os.environ.get("VERIF_MAX_RUNS", entry.get("max_runs", 10_000_000)))
    from . import findings
    from .runner import explore, fork_run

    t0 = time.monotonic()
    print("check %s tier=%s VERIF_SEED=%d src=%s budget=%.0fs" % (prop, tier, seed, src, budget), flush=True)
    known = findings.known_for(prop)
    known_sigs = sorted({x for f in known for x in (f.get("signatures") or [f.get("signature")])})
    base_spec = dict(entry.get("spec", {}), property=prop, seed=seed, tier=tier, known_signatures=known_sigs)
    agg = explore(entry["fn"], base_spec, budget, max_runs, batch=entry.get("batch", 1))
    # a run that merely ran out of wall time (no frozen callback: that would be a hang violation) says nothing yet: it is
    # repeated once on its own with four times the allowance before it counts as a harness error
    from .runner import WALL_TIMEOUT
    for h in list(agg.harness_errors):
        if h.get("verdict") != "wall_timeout" or h.get("run") is None:
            continue
        res = fork_run(entry["fn"], dict(base_spec, run=h["run"]), wall_timeout=WALL_TIMEOUT * 4)
        print("  run %s ran out of wall time (%.0fs); repeated alone: %s" % (h["run"], WALL_TIMEOUT, res.get("verdict")), flush=True)
        if res.get("verdict") in ("ok", "violation"):
            agg.harness_errors.remove(h)
            agg.harness_error_count -= 1
            agg.timeouts -= 1
            agg.runs -= 1
            agg.add(h["run"], res)

    extra_cov = {}
    if entry.get("post"):
        # property-specific systematic part (e.g. fault enumeration sweeps)
        extra_cov = entry["post"](agg, base_spec, tier) or {}

    known_hit = []
    new = []
    for v in agg.violations:
        f = findings.match(prop, v.get("signature"), known)
        if f is not None:
            known_hit.append({"signature": v.get("signature"), "what": f.get("what"),
                              "count": agg.violation_count.get(v.get("signature"), 0)})
            if v.get("replay") is not None and os.environ.get("VERIF_SAVE_KNOWN") == "1":
                # (development aid: a current replay of a known finding, to refresh findings/ after harness changes)
                save_replay(prop, seed, v["replay"], ".known")
        else:
            new.append(v)
    for k in known_hit:
        print("KNOWN-FINDING: property=%s %s (signature %s, %d runs)" % (prop, k["what"], k["signature"], k["count"]))

    rc = 0
    reported = []
    for v in new[:3]:
        replay = v.get("replay")
        if replay is None:
            print("HARNESS-ERROR violation without replay: %s" % v.get("signature"))
            rc = 2
            continue
        orig_path = save_replay(prop, seed, replay, ".orig")
        final = replay
        if entry.get("minimise", True) and os.environ.get("VERIF_NO_MINIMISE") != "1":
            from .minimise import Minimiser
            m = Minimiser(entry["fn"], base_spec, replay,
                          budget=int(os.environ.get("VERIF_MIN_BUDGET", 120 if tier == "quick" else 300)),
                          log=lambda s: print("  " + s, flush=True))
            try:
                final = m.run()
            except Exception as exc:  # noqa
                print("  minimiser failed: %r (reporting the original)" % (exc,))
                final = replay
        path = save_replay(prop, seed, final)
        # verify the replay in a fresh process before reporting
        res = fork_run(entry["fn"], dict(base_spec, run=final.get("run", 0), replay=final))
        for attempt in (2, 4):
            # a verification that ran out of wall time on a loaded machine says nothing about the replay: repeat it
            if res.get("verdict") not in ("wall_timeout", "harness_error"):
                break
            print("  verification of the replay gave %s (%s), repeating" % (res.get("verdict"), (res.get("detail") or "")[-200:]))
            from .runner import WALL_TIMEOUT
            res = fork_run(entry["fn"], dict(base_spec, run=final.get("run", 0), replay=final), wall_timeout=WALL_TIMEOUT * attempt)
        ok = (res.get("verdict") == "violation" and res.get("signature") == final["expect"]["signature"]
              and res.get("digest") == final["expect"]["digest"])
        if not ok:
            # fall back to the un-minimised file
            res0 = fork_run(entry["fn"], dict(base_spec, run=replay.get("run", 0), replay=replay))
            if res0.get("verdict") == "violation" and res0.get("signature") == replay["expect"]["signature"]:
                path = orig_path
                final = replay
                ok = True
        if not ok:
            print("HARNESS-ERROR violation %s did not replay (run %s): got %s / %s; original kept at %s" % (
                v.get("signature"), replay.get("run"), res.get("verdict"), res.get("signature"), orig_path))
            rc = max(rc, 2)
            continue
        print("violation: %s" % final["expect"]["signature"])
        print("  detail: %s" % (final.get("detail") or "")[:600])
        print("  ops=%d (was %d)" % (len(final.get("ops") or []), len(replay.get("ops") or [])))
        print("VIOLATION property=%s replay=%s" % (prop, path), flush=True)
        reported.append(path)
        rc = 1
    if reported:
        # at least one violation was verified by replay: that is the verdict, whatever else could not be replayed
        rc = 1
    for v in new[3:]:
        # further signatures of the same batch: kept un-minimised for triage
        if v.get("replay") is not None:
            print("also: %s -> %s" % (v.get("signature"), save_replay(prop, seed, v["replay"], ".also")))
    if agg.harness_error_count and rc == 0:
        for h in agg.harness_errors[:3]:
            print("HARNESS-ERROR run=%s %s: %s" % (h.get("run"), h.get("verdict"), (h.get("detail") or "")[-800:]))
        rc = 2
    wall = time.monotonic() - t0
    path = write_evidence(prop, entry, tier, seed, agg, wall, new, known_hit, extra_cov)
    print("%s: runs=%d ok=%d nontrivial=%d distinct=%d violations=%d(new signatures) known=%d harness_errors=%d wall=%.1fs evidence=%s" % (
        prop, agg.runs, agg.ok, agg.nontrivial, len(agg.digests), len(new), len(known_hit),
        agg.harness_error_count, wall, path), flush=True)
    if agg.runs == 0 and rc == 0:
        print("HARNESS-ERROR no runs executed")
        rc = 2
    return rc
