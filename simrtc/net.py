"""SimNet: the only transport the system under test sees.

A Link is one direction between two endpoints.  For every datagram it draws one
recorded decision: deliver after base+jitter, drop, duplicate, corrupt, or an
extra (reordering) delay.  After `heal_at` every datagram is delivered exactly
once, in order, after the base latency.  Counters say how often each fault kind
actually fired.
"""

from collections import Counter

# decision encoding (JSON-able list): [action, delay_us, extra]
DELIVER, DROP, DUP, CORRUPT = 0, 1, 2, 3


class Profile:
    """Fault rates for one direction (or one traffic class of it)."""

    __slots__ = (
        "drop", "dup", "corrupt", "reorder", "base", "jitter", "reorder_max",
        "burst_enter", "burst_exit", "burst_drop", "fifo", "flip_only",
    )

    def __init__(self, drop=0.0, dup=0.0, corrupt=0.0, reorder=0.0, base=0.010,
                 jitter=0.0, reorder_max=0.5, burst_enter=0.0, burst_exit=0.3,
                 burst_drop=0.9, fifo=False, flip_only=False):
        self.drop = drop
        self.dup = dup
        self.corrupt = corrupt
        self.reorder = reorder
        self.base = base
        self.jitter = jitter
        self.reorder_max = reorder_max
        self.burst_enter = burst_enter
        self.burst_exit = burst_exit
        self.burst_drop = burst_drop
        self.fifo = fifo
        # bursts that force bits to 0/1 change the datagram or not depending on its content; ciphertext content
        # is not reproducible (OpenSSL's RNG), so encrypted traffic is only ever altered by flips
        self.flip_only = flip_only

    def to_json(self):
        return {k: getattr(self, k) for k in self.__slots__}

    @classmethod
    def from_json(cls, d):
        return cls(**d)


BENIGN = Profile()


def corrupt_bytes(data, spec):
    """spec = [mode, pos, nbits, key]: one burst of 1..32 bits starting at bit
    `pos`.  mode "burst": first and last bit flipped, interior bits flipped per
    key; "zero"/"ones": the window forced to 0s / 1s; "rand": the window replaced
    by key bits; "trunc": the datagram cut at byte pos.  (A window that happens
    to leave the data unchanged is reported by the caller as not corrupted.)"""
    mode, pos, nbits, key = spec
    if mode == "trunc":
        return data[: max(0, pos % (len(data) + 1))]
    if not data:
        return data
    total = len(data) * 8
    nbits = max(1, min(nbits, 32, total))
    start = pos % (total - nbits + 1)
    buf = bytearray(data)
    for i in range(nbits):
        bit = start + i
        mask = 0x80 >> (bit & 7)
        if mode == "zero":
            buf[bit >> 3] &= ~mask & 0xFF
        elif mode == "ones":
            buf[bit >> 3] |= mask
        elif mode == "rand":
            if (key >> i) & 1:
                buf[bit >> 3] |= mask
            else:
                buf[bit >> 3] &= ~mask & 0xFF
        else:
            if i == 0 or i == nbits - 1 or (key >> i) & 1:
                buf[bit >> 3] ^= mask
    return bytes(buf)


class Link:
    def __init__(self, loop, choices, stream, deliver, dst_ctx, profile=None,
                 heal_at=None, classify=None, class_profiles=None, blackouts=()):
        self.loop = loop
        self.choices = choices
        self.stream = stream
        self.deliver = deliver
        self.dst_ctx = dst_ctx
        self.profile = profile or BENIGN
        self.heal_at = heal_at
        self.classify = classify
        self.class_profiles = class_profiles or {}
        self.blackouts = list(blackouts)  # [(t0, t1)] everything dropped
        self.stats = Counter()
        self._burst = False
        self._last_when = 0.0
        self.tap = None  # tap(event, data, info) for logs / monitors
        self.closed = False
        # hold = {"cls": class, "from": n, "count": k, "dur": seconds}: the n-th .. (n+k-1)-th datagram of that traffic
        # class are kept back for `dur` seconds on top of the base delay (a feedback packet that arrives very late)
        self.hold = None
        self._hold_seen = 0

    def healed(self):
        return self.heal_at is not None and self.loop.time() >= self.heal_at

    def _profile_for(self, data):
        if self.classify is not None:
            cls = self.classify(data)
            p = self.class_profiles.get(cls)
            if p is not None:
                return p
        return self.profile

    def send(self, data):
        if self.closed:
            return
        now = self.loop.time()
        self.stats["sent"] += 1
        if self.healed():
            self._schedule(data, now + self.profile.base, fifo=True)
            if self.tap:
                self.tap("send", data, {"act": "deliver"})
            return
        for t0, t1 in self.blackouts:
            if t0 <= now < t1:
                self.stats["blackout_drop"] += 1
                if self.tap:
                    self.tap("send", data, {"act": "blackout"})
                return
        p = self._profile_for(data)
        if self.hold is not None and self.classify is not None and self.classify(data) == self.hold["cls"]:
            self._hold_seen += 1
            if self.hold["from"] <= self._hold_seen < self.hold["from"] + self.hold.get("count", 1):
                self.stats["held_back"] += 1
                self._schedule(data, now + p.base + self.hold["dur"])
                if self.tap:
                    self.tap("send", data, {"act": "deliver"})
                return
        if p is BENIGN or (
            p.drop == 0 and p.dup == 0 and p.corrupt == 0 and p.reorder == 0
            and p.jitter == 0 and p.burst_enter == 0
        ):
            self._schedule(data, now + p.base, fifo=p.fifo)
            if self.tap:
                self.tap("send", data, {"act": "deliver"})
            return

        def gen(rng, p=p, n=len(data)):
            # Gilbert-Elliott burst state is part of the link, advanced here
            if self._burst:
                if rng.random() < p.burst_exit:
                    self._burst = False
            elif p.burst_enter and rng.random() < p.burst_enter:
                self._burst = True
            delay = p.base + (rng.random() * p.jitter if p.jitter else 0.0)
            if p.reorder and rng.random() < p.reorder:
                delay += rng.random() * p.reorder_max
            d_us = int(delay * 1e6)
            x = rng.random()
            drop_p = p.burst_drop if self._burst else p.drop
            if x < drop_p:
                return [DROP, 0, None]
            x = rng.random()
            if x < p.dup:
                d2 = p.base + rng.random() * max(p.jitter, p.reorder_max * (p.reorder > 0), 0.001)
                return [DUP, d_us, int(d2 * 1e6)]
            if p.corrupt and rng.random() < p.corrupt:
                if rng.random() < 0.1:
                    spec = ["trunc", rng.randrange(0, n + 1), 0, 0]
                else:
                    mode = ("burst", "burst", "zero", "ones", "rand")[rng.randrange(5)]
                    if p.flip_only:
                        mode = "burst"
                    nbits = 32 if rng.random() < 0.3 else rng.randint(1, 32)
                    if rng.random() < 0.5:
                        # field-aligned: whole 32-bit words, biased to the packet and chunk headers
                        words = max(1, n // 4)
                        w = rng.randrange(min(words, 8)) if rng.random() < 0.5 else rng.randrange(words)
                        pos = w * 32
                    else:
                        pos = rng.randrange(0, max(1, n * 8))
                    spec = [mode, pos, nbits, rng.getrandbits(32)]
                return [CORRUPT, d_us, spec]
            return [DELIVER, d_us, None]

        dec = self.choices.raw(self.stream, gen, [DELIVER, int(p.base * 1e6), None])
        act, d_us, extra = dec
        if act == DROP:
            self.stats["drop"] += 1
            if self.tap:
                self.tap("send", data, {"act": "drop"})
            return
        when = now + d_us / 1e6
        if when > now + p.base + 1e-9 + (p.jitter or 0):
            self.stats["reorder_delay"] += 1
        if act == CORRUPT:
            bad = corrupt_bytes(data, extra)
            changed = bad != data
            self.stats["corrupt" if changed else "corrupt_noop"] += 1
            if changed:
                self.stats["corrupt_" + str(extra[0])] += 1
            if self.tap:
                self.tap("send", data, {"act": "corrupt", "bad": bad})
            self._schedule(bad, when, fifo=p.fifo, corrupted=(str(extra[0]) if changed else False))
            return
        if self.tap:
            self.tap("send", data, {"act": "dup" if act == DUP else "deliver"})
        self._schedule(data, when, fifo=p.fifo)
        if act == DUP:
            self.stats["dup"] += 1
            self._schedule(data, now + extra / 1e6, fifo=p.fifo)

    def _schedule(self, data, when, fifo=False, corrupted=False):
        if fifo and when <= self._last_when:
            when = self._last_when + 1e-6
        if when < self._last_when:
            self.stats["reordered"] += 1
        self._last_when = max(self._last_when, when)
        self.loop.call_at(when, self._arrive, data, corrupted, context=self.dst_ctx)

    def _arrive(self, data, corrupted):
        # (a datagram that is already on its way arrives whatever the sender does to its socket afterwards: `closed`
        # only stops new sends; a closed *destination* drops it in its own inject())
        self.stats["delivered"] += 1
        if self.tap:
            self.tap("recv", data, {"corrupted": corrupted})
        self.deliver(data, corrupted)


def random_profile(ch, stream, intensity=None, allow_corrupt=False):
    """Swarm-style: each run enables a random subset of fault kinds at random
    rates; most runs keep rates low enough that the system makes progress."""
    kinds = ["drop", "dup", "reorder", "jitter", "burst"]
    if allow_corrupt:
        kinds.append("corrupt")
    if intensity is None:
        intensity = ch.choice(stream, [0.02, 0.05, 0.1, 0.2, 0.35, 0.5])
    p = Profile()
    p.base = ch.choice(stream, [0.001, 0.01, 0.05, 0.2])
    enabled = [k for k in kinds if ch.chance(stream, 0.55)]
    if not enabled:
        enabled = [ch.choice(stream, kinds)]
    for k in enabled:
        if k == "drop":
            p.drop = round(ch.uniform(stream, 0.0, intensity), 4)
        elif k == "dup":
            p.dup = round(ch.uniform(stream, 0.0, intensity), 4)
        elif k == "reorder":
            p.reorder = round(ch.uniform(stream, 0.0, min(1.0, 2 * intensity)), 4)
            p.reorder_max = ch.choice(stream, [0.02, 0.2, 1.0, 3.0])
        elif k == "jitter":
            p.jitter = ch.choice(stream, [0.001, 0.02, 0.1, 0.5])
        elif k == "burst":
            p.burst_enter = round(ch.uniform(stream, 0.0, intensity / 3), 4)
            p.burst_exit = ch.choice(stream, [0.1, 0.3, 0.6])
        elif k == "corrupt":
            p.corrupt = round(ch.uniform(stream, 0.0, intensity), 4)
    return p
