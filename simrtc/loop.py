"""SimLoop: a virtual-time asyncio event loop with a seeded per-node scheduler.

* time() is the simulated clock; the loop never blocks.  When nothing is
  runnable the clock jumps to the next timer (or to the end of a node stall).
* Every handle belongs to a *node* (a contextvar tag inherited through
  contextvars.Context).  FIFO order is preserved inside a node; which node runs
  next, and whether a node is stalled (frozen) for a while, is a scheduler
  choice drawn from the `sched` / `stall` streams of Choices.
* Timers never fire early and, inside a node, never out of deadline order.
* One handle runs per _run_once() iteration; a step hook runs after each.
"""

import asyncio
import contextvars
import heapq
import time as _walltime
from asyncio import base_events, events

NODE = contextvars.ContextVar("sim_node", default="main")


class SimDeadlock(Exception):
    """Nothing runnable and no timer: the awaited future can never complete."""


class SimBudgetExceeded(Exception):
    """Step or simulated-time budget exhausted."""


class RunTimeout(BaseException):
    """Raised by the runner's wall-clock watchdog inside whatever frame is running."""


HANG_SECONDS = 10.0


CURRENT = None   # the loop of the run in progress (set by new_loop)


def watchdog_fired(frame):
    """Called by the runner's SIGALRM handler with the interrupted frame.  If one single callback has been
    running for HANG_SECONDS of wall time, the code under test is spinning (virtual time cannot advance inside
    a callback): remember 'module.function' of the innermost aiortc frame on the loop.  Otherwise the run was
    merely slow - a harness matter, never a violation."""
    loop = CURRENT
    if loop is None or _walltime.monotonic() - getattr(loop, "handle_wall", 0) < HANG_SECONDS:
        return
    name = None
    f = frame
    while f is not None:
        fn = f.f_code.co_filename
        if "aiortc" in fn and "simrtc" not in fn:
            name = "%s.%s" % (fn.rsplit("/", 1)[-1].replace(".py", ""), f.f_code.co_name)
            break
        f = f.f_back
    loop.hang_info = name or "?"


def hang_frame(loop, exc):
    return getattr(loop, "hang_info", None)


def node_of(handle):
    ctx = handle._context
    if ctx is None:
        return "main"
    return ctx.get(NODE, "main")


def node_context(name):
    """A fresh Context tagged with the node name."""
    ctx = contextvars.Context()
    ctx.run(NODE.set, name)
    return ctx


class SimLoop(base_events.BaseEventLoop):
    def __init__(self, choices=None, max_steps=2_000_000, max_time=1e7):
        super().__init__()
        self._now = 0.0
        self._clock_resolution = 1e-9
        self.choices = choices
        self.steps = 0
        self.max_steps = max_steps
        self.max_time = max_time
        self.step_hook = None
        self.stall_until = {}  # node -> simulated time
        self.sched_enabled = True
        self.stall_rate = 0.0
        self.stall_max = 0.0
        self.unhandled = []  # exceptions reported to the loop
        self.current_node = "main"
        self.node_switches = 0
        self.stalls = 0
        self.handle_wall = _walltime.monotonic()
        self.set_exception_handler(self._record_exception)
        # tasks that ended with an exception, recorded when they end (not when the garbage collector finds them)
        self.task_failures = []

    # -- clock ---------------------------------------------------------
    def time(self):
        return self._now

    # -- plumbing that BaseEventLoop leaves abstract ---------------------
    def _process_events(self, event_list):
        pass

    def _write_to_self(self):
        pass

    def _note_task_end(self, handle):
        """Called after a handle ran: if it was a task's step and the task ended with an exception, record it.
        Adds no callback of its own, so the schedule is exactly what it would be without the record."""
        task = getattr(handle._callback, "__self__", None)
        if isinstance(task, asyncio.Task) and task.done() and not task.cancelled():
            exc = getattr(task, "_exception", None)     # does not mark the exception as retrieved
            if exc is not None and not getattr(task, "_sim_noted", False):
                try:
                    task._sim_noted = True
                except AttributeError:
                    pass
                code = getattr(task.get_coro(), "cr_code", None)
                self.task_failures.append({"where": "%s:%s" % (code.co_filename, code.co_qualname) if code else "?",
                                           "exc": exc})

    def _record_exception(self, loop, context):
        exc = context.get("exception")
        self.unhandled.append(
            {
                "message": context.get("message"),
                "exception": repr(exc) if exc is not None else None,
                "type": type(exc).__name__ if exc is not None else None,
                "exc": exc,
            }
        )

    def run_in_executor(self, executor, func, *args):
        # inline: no pool thread whose completion time we would not control
        fut = self.create_future()
        try:
            fut.set_result(func(*args))
        except BaseException as exc:  # noqa
            fut.set_exception(exc)
        return fut

    async def shutdown_default_executor(self, timeout=None):
        return None

    # -- the scheduler -----------------------------------------------------
    def _move_due_timers(self):
        sched = self._scheduled
        while sched and sched[0]._cancelled:
            h = heapq.heappop(sched)
            h._scheduled = False
            self._timer_cancelled_count = max(0, self._timer_cancelled_count - 1)
        end = self._now + self._clock_resolution
        while sched:
            h = sched[0]
            if h._when >= end:
                break
            h = heapq.heappop(sched)
            h._scheduled = False
            if h._cancelled:
                self._timer_cancelled_count = max(0, self._timer_cancelled_count - 1)
                continue
            self._ready.append(h)

    def _next_timer_when(self):
        sched = self._scheduled
        while sched and sched[0]._cancelled:
            h = heapq.heappop(sched)
            h._scheduled = False
            self._timer_cancelled_count = max(0, self._timer_cancelled_count - 1)
        if sched:
            return sched[0]._when
        return None

    def _run_once(self):
        self._move_due_timers()
        ready = self._ready
        # drop cancelled handles at the head cheaply
        while ready and ready[0]._cancelled:
            ready.popleft()

        if not ready:
            if self._stopping:
                return
            when = self._next_timer_when()
            if when is None:
                raise SimDeadlock("no ready callbacks and no timers")
            if when > self.max_time:
                raise SimBudgetExceeded(f"simulated time budget ({self.max_time}s)")
            if when > self._now:
                self._now = when
            return  # next iteration moves the due timers

        # nodes with runnable work, in order of first appearance
        now = self._now
        nodes = []
        first = {}
        for idx, h in enumerate(ready):
            if h._cancelled:
                continue
            n = node_of(h)
            if n not in first:
                first[n] = idx
                nodes.append(n)
        if not nodes:
            ready.clear()
            return
        eligible = [n for n in nodes if self.stall_until.get(n, 0.0) <= now]
        if not eligible:
            # every runnable node is stalled: advance to the earliest of
            # (stall end, next timer); due timers queue up behind.
            wake = min(self.stall_until[n] for n in nodes)
            when = self._next_timer_when()
            if when is not None and when < wake:
                wake = when
            if self._stopping:
                # run_until_complete is finishing: do not spin on stalls
                self.stall_until.clear()
                return
            self._now = max(self._now, wake)
            return

        if len(eligible) > 1 and self.sched_enabled and self.choices is not None:
            k = self.choices.index("sched", len(eligible))
            node = eligible[k]
        else:
            node = eligible[0]

        # maybe stall the chosen node instead of running it ("main" never stalls)
        if (
            self.stall_rate > 0.0
            and node != "main"
            and self.choices is not None
            and self.choices.chance("stall", self.stall_rate)
        ):
            dur = self.choices.uniform("stall", 0.0, self.stall_max)
            if dur > 0:
                self.stall_until[node] = now + dur
                self.stalls += 1
                return

        idx = first[node]
        if idx == 0:
            handle = ready.popleft()
        else:
            handle = ready[idx]
            del ready[idx]
        if node != self.current_node:
            self.node_switches += 1
            self.current_node = node
        self.steps += 1
        if self.steps > self.max_steps:
            raise SimBudgetExceeded(f"step budget ({self.max_steps})")
        self.handle_wall = _walltime.monotonic()   # (harness bookkeeping only: hang diagnosis)
        handle._run()
        self._note_task_end(handle)
        handle = None
        if self.step_hook is not None:
            self.step_hook()


def new_loop(choices=None, **kw):
    global CURRENT
    loop = SimLoop(choices, **kw)
    CURRENT = loop
    asyncio.set_event_loop(loop)
    return loop
