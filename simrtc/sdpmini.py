"""A small, independent reader of SDP text (line regexes only; never calls
aiortc.sdp).  It extracts what the C03 oracle compares: per m-section kind,
mid, direction, payload types with their rtpmap / fmtp / rtcp-fb, extmap ids,
setup role, ICE credentials, and the session BUNDLE group."""

import re

DIRECTIONS = ("sendrecv", "sendonly", "recvonly", "inactive")
RTPMAP = re.compile(r"^rtpmap:(\d+) ([^/]+)/(\d+)(?:/(\d+))?$")
FMTP = re.compile(r"^fmtp:(\d+) (.*)$")
RTCPFB = re.compile(r"^rtcp-fb:(\d+|\*) (.*)$")
EXTMAP = re.compile(r"^extmap:(\d+)(?:/\S+)? (\S+)")


class Section:
    def __init__(self, kind, port, proto, fmt):
        self.kind, self.port, self.proto, self.fmt = kind, port, proto, fmt
        self.mid = None
        self.direction = None
        self.rtpmap = {}      # pt -> (name lower, clock, channels)
        self.fmtp = {}        # pt -> {k: v}
        self.fb = {}          # pt -> set of strings
        self.extmap = {}      # id -> uri
        self.setup = None
        self.ufrag = self.pwd = None
        self.fingerprints = []
        self.rtcp_mux = False
        self.ssrcs = []
        self.candidates = 0

    def codecs(self):
        """[(pt, name, clock, channels, apt or None)] in m-line order."""
        out = []
        for f in self.fmt:
            if not f.isdigit():
                continue
            pt = int(f)
            name, clock, ch = self.rtpmap.get(pt, (None, None, None))
            apt = self.fmtp.get(pt, {}).get("apt")
            out.append((pt, name, clock, ch, int(apt) if apt and apt.isdigit() else None))
        return out


class Sdp:
    def __init__(self, text):
        self.sections = []
        self.bundle = None
        cur = None
        for raw in text.replace("\r\n", "\n").split("\n"):
            line = raw.strip()
            if not line or len(line) < 2 or line[1] != "=":
                continue
            t, v = line[0], line[2:]
            if t == "m":
                parts = v.split()
                cur = Section(parts[0], int(parts[1]), parts[2], parts[3:])
                self.sections.append(cur)
                continue
            if t != "a":
                continue
            if cur is None:
                if v.startswith("group:BUNDLE"):
                    self.bundle = v.split()[1:]
                continue
            if v in DIRECTIONS:
                cur.direction = v
            elif v.startswith("mid:"):
                cur.mid = v[4:]
            elif v.startswith("setup:"):
                cur.setup = v[6:]
            elif v.startswith("ice-ufrag:"):
                cur.ufrag = v[10:]
            elif v.startswith("ice-pwd:"):
                cur.pwd = v[8:]
            elif v.startswith("fingerprint:"):
                cur.fingerprints.append(tuple(v[12:].split(" ", 1)))
            elif v == "rtcp-mux":
                cur.rtcp_mux = True
            elif v.startswith("candidate:"):
                cur.candidates += 1
            elif v.startswith("ssrc:"):
                s = v[5:].split(" ", 1)[0]
                if s.isdigit() and int(s) not in cur.ssrcs:
                    cur.ssrcs.append(int(s))
            else:
                m = RTPMAP.match(v)
                if m:
                    cur.rtpmap[int(m.group(1))] = (m.group(2).lower(), int(m.group(3)),
                                                   int(m.group(4)) if m.group(4) else None)
                    continue
                m = FMTP.match(v)
                if m:
                    d = {}
                    for kv in m.group(2).split(";"):
                        if "=" in kv:
                            k, val = kv.split("=", 1)
                            d[k.strip()] = val.strip()
                    cur.fmtp[int(m.group(1))] = d
                    continue
                m = RTCPFB.match(v)
                if m and m.group(1) != "*":
                    cur.fb.setdefault(int(m.group(1)), set()).add(m.group(2).strip())
                    continue
                m = EXTMAP.match(v)
                if m:
                    cur.extmap[int(m.group(1))] = m.group(2)


def compare_answer(offer_text, answer_text):
    """-> list of (signature, detail) for every way the answer fails to mirror the offer."""
    o, a = Sdp(offer_text), Sdp(answer_text)
    bad = []
    so = [(s.kind, s.mid) for s in o.sections]
    sa = [(s.kind, s.mid) for s in a.sections]
    if so != sa:
        bad.append(("answer-sections-do-not-mirror-offer", "offer %r answer %r" % (so, sa)))
        return bad
    if (o.bundle or []) != (a.bundle or []):
        bad.append(("answer-bundle-group-differs", "offer %r answer %r" % (o.bundle, a.bundle)))
    for x, y in zip(o.sections, a.sections):
        where = "m=%s mid=%s" % (y.kind, y.mid)
        if y.setup not in ("active", "passive"):
            bad.append(("answer-without-definite-dtls-role", "%s setup=%r" % (where, y.setup)))
        if not y.ufrag or not y.pwd:
            bad.append(("answer-without-ice-credentials", where))
        if y.kind not in ("audio", "video"):
            continue
        oc = {pt: (n, c, ch, apt) for pt, n, c, ch, apt in x.codecs()}
        ac = y.codecs()
        if not [c for c in ac if c[1] != "rtx"] and y.direction != "inactive":
            bad.append(("answer-selects-no-codec", where))
        ans_pts = {pt for pt, *_ in ac}
        for pt, n, c, ch, apt in ac:
            if pt not in oc:
                bad.append(("answer-codec-not-offered", "%s pt=%d %s/%s" % (where, pt, n, c)))
                continue
            on, oclk, och, oapt = oc[pt]
            if (on, oclk, och) != (n, c, ch):
                bad.append(("answer-payload-type-differs-from-offer", "%s pt=%d offer %s/%s/%s answer %s/%s/%s" % (
                    where, pt, on, oclk, och, n, c, ch)))
            if n == "rtx":
                if apt is None or apt not in ans_pts or apt != oapt:
                    bad.append(("answer-rtx-without-its-base-codec", "%s pt=%d apt=%r" % (where, pt, apt)))
            extra = y.fb.get(pt, set()) - x.fb.get(pt, set())
            if extra:
                bad.append(("answer-rtcp-feedback-not-offered", "%s pt=%d %r" % (where, pt, sorted(extra))))
        for i, uri in y.extmap.items():
            if x.extmap.get(i) != uri:
                bad.append(("answer-header-extension-not-offered-or-renumbered", "%s id=%d %s (offer: %r)" % (
                    where, i, uri, x.extmap.get(i))))
        if y.direction not in DIRECTIONS:
            bad.append(("answer-without-direction", where))
    return bad
