"""Registry: property id -> lazily built entry (engine function, spec, budgets,
level, evidence metadata)."""

SCTP_COMPONENTS = {
    "RTCSctpTransport, RTCDataChannel": "real",
    "RTCDtlsTransport": "stub (StubDtls: same one-datagram-at-a-time delivery discipline)",
    "ICE (aioice)": "stub",
    "asyncio loop, clock, RNG, network": "simulated",
}
SCTP_STATE_MEASURE = ("distinct values of (association state, bucketed sent/outbound queue length, T3 running, "
                      "fast recovery, gaps present, FORWARD-TSN/RECONFIG pending) for both ends, sampled after every handle")
SCTP_ASSUME = [
    "the DTLS layer below SCTP delivers or loses whole datagrams and handles one datagram to completion before the next (as RTCDtlsTransport.__run does)",
    "transport send does not suspend (aioice UDP path) except in the TURN-like configuration (about an eighth of the runs), where every n-th send of a node suspends",
    "sampling, not enumeration: a clean batch is evidence, not proof",
]


def _sctp(profile, rule, level="exploration", quick_s=40, thorough_s=600, probes=(), fn="run"):
    def build():
        from ..engines import sctp_sim
        return {
            "fn": getattr(sctp_sim, fn), "spec": {"profile": profile}, "level": level,
            "quick_s": quick_s, "thorough_s": thorough_s, "rule": rule,
            "components": SCTP_COMPONENTS, "state_measure": SCTP_STATE_MEASURE,
            "assumptions": SCTP_ASSUME, "probes_expected": list(probes),
        }
    return build


RULE_SCTP = ("each evaluation is one simulated run: a generated program of create/send/close ops on two real "
             "RTCSctpTransports over SimNet with a seeded fault schedule (loss, duplication, reordering, jitter, bursts, "
             "blackouts, in lifecycle runs also control chunks of one class held back for seconds; a tenth of the C01/C13 "
             "runs are steered towards 'messages abandoned, channel closed, id re-used'), then heal and liveness probes; a run is "
             "non-trivial when >=1 fault fired and >=1 message was delivered; distinct = distinct event-log digests "
             "among non-trivial runs")

HIST_COMPONENTS = {
    "JitterBuffer / RemoteBitrateEstimator / RTCRtpReceiver statistics + RTCP report task / RtpRouter": "real",
    "RTCDtlsTransport": "stub (captures what the receiver sends; hands arrivals over one at a time)",
    "decoder thread": "not started (threading/queue seams of aiortc.rtcrtpreceiver rebound)",
    "asyncio loop, clock, RNG, network": "simulated",
}
HIST_ASSUME = [
    "arrival histories are produced by the simulated network (loss, duplication, delay, reordering) and the simulated clock; the object under test is fed exactly what arrives, when it arrives",
    "sampling, not enumeration: a clean batch is evidence, not proof",
]


def _hist(world, rule, measure, quick_s=30, thorough_s=480, probes=(), level="exploration"):
    def build():
        from ..engines import history_sim
        return {
            "fn": history_sim.run, "spec": {"world": world}, "level": level,
            "quick_s": quick_s, "thorough_s": thorough_s, "rule": rule,
            "components": HIST_COMPONENTS, "state_measure": measure,
            "assumptions": HIST_ASSUME, "probes_expected": list(probes),
        }
    return build


RULE_JB = ("each evaluation is one simulated history: a generated sender stream (frames of 1..12 packets, sequence/timestamp "
           "origins anywhere incl. wraparound, sender jumps, merged timestamps) through SimNet into a real JitterBuffer, "
           "every add() judged against the list of packets that arrived; non-trivial = >=1 frame released and >=1 network "
           "fault fired; distinct = distinct event-log digests among non-trivial runs")
RULE_BWE = ("each evaluation is one simulated arrival history: segments of traffic (rates 10..3000 pps, sizes 0..1500, idle gaps, "
            "bursts, bottleneck squeezes that build queues) stamped by a sender clock with arbitrary origin, through a "
            "bottleneck + SimNet into a real RemoteBitrateEstimator; non-trivial = >20 arrivals and >=1 estimate; distinct = "
            "distinct event-log digests")
RULE_STATS = ("each evaluation is one simulated RTP stream history (runs of packets, sequence/timestamp jumps, wall-clock jumps, "
              "loss/duplication/reordering by SimNet) into a real RTCRtpReceiver whose own RTCP task emits receiver reports at its "
              "seeded intervals; every report block on the wire is compared with an RFC 3550 reference fed the same arrivals; "
              "non-trivial = >=1 receiver report judged and >5 arrivals")
RULE_ROUTER = ("each evaluation is one history of register/unregister operations (overlapping payload types, SSRC latching) "
               "interleaved by scheduler and network with RTP and RTCP packets of every type, each routing decision compared with a "
               "dict-based reference router; non-trivial = >3 routed packets")

RULE_DIFF = ("each evaluation is a PAIR of simulated runs of one workload under one recorded network/scheduler decision trace: "
             "small sequence-number origins vs origins within a few hundred of the wrap point (SCTP TSN / re-config / stream "
             "sequence numbers; RTP sequence numbers and timestamps in the jitter buffer and receiver statistics); the event logs, "
             "sequence fields taken relative to their origins, must be identical; non-trivial = messages/frames/reports were "
             "produced; distinct = distinct event-log digests")


def _diff():
    def build():
        from ..engines import diff_sim
        comps = dict(SCTP_COMPONENTS)
        comps.update(HIST_COMPONENTS)
        comps.update(MEDIA_COMPONENTS)
        return {
            "fn": diff_sim.run, "spec": {}, "level": "exploration", "quick_s": 45, "thorough_s": 600,
            "rule": RULE_DIFF, "components": comps,
            "state_measure": "as for the underlying engine of each pair (sctp_sim / history_sim)",
            "assumptions": SCTP_ASSUME + ["the pair shares every harness decision: the second run replays the first run's recorded choice streams"],
            "probes_expected": ["identical_logs", "tsn_wrap_crossed", "rtp_seq_wrap_crossed", "differential_pairs_sctp",
                                "differential_pairs_jb", "differential_pairs_stats", "differential_pairs_media",
                                "media_seq_wrap_crossed", "wrap_run_rr_after_sequence_wrap"],
        }
    return build


MEDIA_COMPONENTS = {
    "RTCRtpSender (RTP/RTCP tasks, retransmission history, RTX), VP8/H.264 packetisers": "real",
    "RTCDtlsTransport (OpenSSL DTLS handshake, libsrtp SRTP/SRTCP), RtpRouter": "real",
    "RTCRtpReceiver (RTX unwrap, NackGenerator, JitterBuffer, RTCP task)": "real",
    "codecs (libvpx/x264)": "not run: packet tracks feed the packetiser; the decoder seam records what the decoder would get",
    "ICE (aioice)": "stub (SimIceConnection on SimNet)",
    "asyncio loop, clock, RNG, network": "simulated",
}
MEDIA_ASSUME = [
    "DTLS handshake datagrams are delayed but never lost (OpenSSL's retransmission timer reads the real clock)",
    "the first 6 RTP packets are delivered unfaulted so that SRTP's rollover counter locks on (as it has in any stream that reaches the wrap)",
    "transport send does not suspend (aioice UDP path) except in the TURN-like configuration (about an eighth of the runs), where every n-th send of a node suspends",
    "sampling, not enumeration: a clean batch is evidence, not proof",
]
RULE_MEDIA = ("each evaluation is one simulated session: a packet track of 10-120 frames (1..8 packets, VP8 or H.264, RTX negotiated or "
              "not, sequence/timestamp origins anywhere incl. just before wraparound) sent by a real RTCRtpSender through real DTLS/SRTP "
              "over a seeded faulty network to a real RTCRtpReceiver; safety runs fault every class of datagram, liveness runs only "
              "first transmissions; non-trivial = >=1 frame reached the decoder and >=1 fault fired; distinct = distinct event-log digests")


def _media():
    def build():
        from ..engines import media_sim
        return {
            "fn": media_sim.run, "spec": {}, "level": "exploration", "quick_s": 45, "thorough_s": 600,
            "rule": RULE_MEDIA, "components": MEDIA_COMPONENTS,
            "state_measure": "(discards so far, frame partial, retransmissions so far - bucketed) at every frame handed to the decoder",
            "assumptions": MEDIA_ASSUME,
            "probes_expected": ["frames_to_decoder", "nacks", "pli", "rtx_packets_sent", "verbatim_retransmissions",
                                "rtp_sequence_wrap_crossed", "partial_first_frames", "live_all_frames_recovered"],
        }
    return build


RULE_DTLS = ("each evaluation is one simulated pair of real RTCDtlsTransports: per side a generated fingerprint list (subsets and "
             "permutations of sha-256/384/512, upper/lower/mixed case, one hex digit altered, unsupported algorithm names, mixtures), an "
             "SRTP profile preference list, explicit or ICE-derived roles; after the handshake RTP, RTCP and data messages in both "
             "directions under delay jitter and bit-burst corruption; non-trivial = the run got as far as the verdict with a non-empty "
             "traffic program; distinct = distinct event-log digests")


def _dtls():
    def build():
        from ..engines import media_sim
        comps = dict(MEDIA_COMPONENTS)
        comps["RTCRtpSender / RTCRtpReceiver / data receiver"] = "fakes registered on the real transports (record what is handed over)"
        return {
            "fn": media_sim.run_dtls, "spec": {}, "level": "exploration", "quick_s": 40, "thorough_s": 480,
            "rule": RULE_DTLS, "components": comps,
            "state_measure": "(expected verdict A, expected verdict B, role assignment, early sender, profile list lengths) per run",
            "assumptions": ["DTLS handshake datagrams are delayed but never lost or altered (OpenSSL's retransmission timer reads the real clock)",
                            "expected verdicts are computed with hashlib over the peer certificate's DER and from the two profile lists",
                            "sampling, not enumeration: a clean batch is evidence, not proof"],
            "probes_expected": ["verdict_connected_connected", "verdict_connected_failed", "verdict_failed_connected",
                                "verdict_failed_failed", "altered_in_transit", "delivered_rtp", "delivered_data", "send_refused"],
        }
    return build


PC_COMPONENTS = {
    "RTCPeerConnection, sdp, RTCRtpTransceiver, codec negotiation": "real",
    "RTCDtlsTransport (OpenSSL DTLS, libsrtp), RTCSctpTransport, RTCDataChannel": "real",
    "RTCRtpSender / RTCRtpReceiver (packetisers, RTCP tasks)": "real",
    "codecs (libvpx/x264/opus)": "not run: packet tracks feed the packetisers, the decoder seam counts frames",
    "ICE (aioice)": "stub (SimIceConnection on SimNet; gathering, candidate exchange, credentials and close semantics mirrored)",
    "signalling channel": "simulated (seeded delay)",
    "asyncio loop, clock, RNG, network": "simulated",
}
PC_ASSUME = [
    "DTLS handshake datagrams are delayed but never lost (OpenSSL's retransmission timer reads the real clock)",
    "ICE connectivity checks are not simulated: a pair connects when credentials match and a candidate was signalled",
    "sampling, not enumeration: a clean batch is evidence, not proof",
]
RULE_C03 = ("each evaluation is one simulated pair of peer connections drawn from the product space (offerer: 0-3 media items x "
            "kind x direction x addTrack/addTransceiver(kind)/addTransceiver(track), data channel before/after media, codec preference "
            "lists with/without RTX, bundle policy; answerer: pre-created items, data channel, bundle policy) plus 0-2 follow-up "
            "negotiations that add media or a data channel from either side; offer/answer texts are judged by an independent SDP "
            "reader, then the session must connect and every data channel must carry a message each way; non-trivial = >=1 completed "
            "negotiation; distinct = distinct event-log digests")


def _pc(run_name, rule, level="exploration", quick_s=45, thorough_s=600, probes=(), measure="", post=None):
    def build():
        from ..engines import pc_sim
        d = {
            "fn": getattr(pc_sim, run_name), "spec": {}, "level": level, "quick_s": quick_s, "thorough_s": thorough_s,
            "rule": rule, "components": PC_COMPONENTS, "state_measure": measure, "assumptions": PC_ASSUME,
            "probes_expected": list(probes),
        }
        if post:
            d["post"] = getattr(pc_sim, post)
        return d
    return build


def _hostile():
    def build():
        from ..engines import hostile_sim
        comps = dict(MEDIA_COMPONENTS)
        comps["RTCSctpTransport, RTCDataChannel"] = "real (on the real DTLS transports)"
        comps["forging actor"] = "harness: byte-level builders (own CRC32c), sent through the peer's real DTLS/SRTP or injected raw at ICE level"
        comps["decoder_worker, audio and video decoders (libav through PyAV)"] = (
            "real, for the audio stream and the second video stream: the real worker function in a real thread that runs only "
            "while the event loop thread waits in put() (baton queue); the first video stream's decoder queue is a tap")
        comps["audio / second video sender"] = "harness: RTP packets with payloads produced once by aiortc's own encoders"
        return {
            "fn": hostile_sim.run, "spec": {}, "level": "fault_enumeration", "quick_s": 50, "thorough_s": 600,
            "rule": ("each evaluation is one simulated session (transports connected; SCTP start, channel open, media start, bursts as "
                     "milestones) into which 3-30 forged or damaged datagrams are injected at generated points, i.e. in every protocol "
                     "state the program passes through; run index i injects datagram class i mod %d first, at milestone position "
                     "(i div %d) mod 7, so the class x state product is swept systematically while field values are sampled; "
                     "non-trivial = >=1 datagram injected; distinct = distinct event-log digests") % (
                         len(hostile_sim.ALL_CLASSES), len(hostile_sim.ALL_CLASSES)),
            "components": comps,
            "state_measure": "(datagram layer, victim SCTP association state, media started, channel open) at every injection",
            "assumptions": MEDIA_ASSUME + ["cost is measured in executed Python lines (sys.monitoring) while the victim handles one forged datagram (work done "
                                           "inside C-level loops is not seen: seeded change X01 is not caught for that reason); peak "
                                           "allocation is measured with tracemalloc around the same handler"],
            "probes_expected": ["injected", "final_data_round_trip", "final_media_flowing", "cost_samples", "memory_samples",
                                "final_audio_decoded", "video_decoded_on_after_undecodable_frame"] +
                               ["inj_" + c for c in hostile_sim.ALL_CLASSES],
        }
    return build


REGISTRY = {
    "C05": _hostile(),
    "C03": _pc("run_c03", RULE_C03, probes=["negotiations_completed", "connected", "data_channels_verified", "renegotiations",
                                            "offering_side_swapped"],
               measure="configuration classes (bundle policies x item counts x data channels) counted under `configurations`"),
    "C14": _pc("run_c14", ("each evaluation is one program of up to 18 calls over {createOffer, createAnswer, setLocal(offer | stale offer | "
                           "answer | stale answer | mismatched answer | implicit), setRemote(offer | answer | mismatched | defective offer/"
                           "answer: no ufrag / no pwd / no rtcp-mux / actpass), close} on either peer of a real pair (background connect "
                           "tasks interleave freely); every call is judged against a JSEP reference table; non-trivial = >=2 calls judged; "
                           "distinct = distinct event-log digests"),
               probes=["legal_calls", "illegal_calls", "rejected_InvalidStateError", "rejected_ValueError",
                       "calls_in_have-local-offer", "calls_in_have-remote-offer", "calls_in_closed"],
               measure="(model state of A, model state of B) after every call", quick_s=40),
    "C19": _pc("run_c19", ("each evaluation is one scenario (a C03 configuration: negotiation with signalling delay, connection, media and "
                           "data flowing, optionally a re-negotiation) in which close() is injected at one scheduler step: run indices "
                           "enumerate 64 strata of close points over the scenario's measured length (a reference execution counts its steps) "
                           "per scenario, on either side, both sides at once or staggered, twice in a row, or after the remote side vanished; "
                           "non-trivial = a close() completed and was judged; distinct = distinct event-log digests"),
               level="fault_enumeration",
               probes=["close_completed", "close_in_new", "close_in_connecting", "close_in_connected", "remote_vanished",
                       "close_in_signaling_have-local-offer", "close_in_signaling_have-remote-offer", "closed_after_scenario_end"],
               measure="(signalingState, connectionState) of the closing side at the instant close() was issued", quick_s=35,
               thorough_s=420, post="c19_post"),
    "C04": _dtls(),
    "C11": _media(),
    "C17": _diff(),
    "C10": _hist("jb", RULE_JB, "(ring occupancy quartile, frame released, key-frame request, order premise intact) after every add()",
                 probes=["frames_released", "pli", "threw_away_held_packets", "complete_premise_held", "late_100_or_more"]),
    "C15": _hist("bwe", RULE_BWE, "(detector hypothesis, rate-control state, estimate emitted) after every arrival",
                 probes=["estimates", "overuse_updates", "underuse_updates", "abs_send_time_wrapped",
                         "window_restarted_after_idle", "zero_size_packets"]),
    "C18": _hist("stats", RULE_STATS, "number of report blocks per receiver report",
                 probes=["receiver_reports", "rr_after_sequence_wrap", "sequence_cycle_completed", "getstats_calls", "cumulative_loss_clamped"]),
    "C12": _hist("router", RULE_ROUTER, "(receivers registered, senders registered, latched SSRCs) after every routed packet",
                 probes=["ssrc_latched", "rtp_known_ssrc", "rtp_dropped_ambiguous", "rtp_dropped_unknown",
                         "rtcp_delivered_remb", "rtcp_delivered_sr", "rtcp_delivered_bye"]),
    "C01": _sctp("c01", RULE_SCTP, probes=["fragmented_messages", "empty_messages", "messages_delivered"]),
    "C02": _sctp("c02", RULE_SCTP, probes=["drained_after_heal", "probe_delivered"]),
    "C06": _sctp("c06", RULE_SCTP, probes=["probe_delivered"]),
    "C08": _sctp("c08", RULE_SCTP + "; every fourth run is a hostile_sim session in which well-formed packets of every chunk type, "
                  "built at byte level, go through the same parse / re-serialise monitor", fn="run_c08",
                  probes=["wire_roundtrips", "corrupted_datagrams_handled", "wellformed_roundtrips"]),
    "C13": _sctp("c13", RULE_SCTP, probes=["id_reused", "close_before_id_assigned"]),
}
