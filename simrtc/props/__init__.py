"""Registry: property id -> lazily built entry (engine function, spec, budgets,
level, evidence metadata)."""

SCTP_COMPONENTS = {
    "RTCSctpTransport, RTCDataChannel": "real",
    "RTCDtlsTransport": "stub (StubDtls: same one-datagram-at-a-time delivery discipline)",
    "ICE (aioice)": "stub",
    "asyncio loop, clock, RNG, network": "simulated",
}
SCTP_STATE_MEASURE = ("distinct values of (association state, bucketed sent/outbound queue length, T3 running, "
                      "fast recovery, gaps present, FORWARD-TSN/RECONFIG pending) for both ends, sampled after every handle")
SCTP_ASSUME = [
    "the DTLS layer below SCTP delivers or loses whole datagrams and handles one datagram to completion before the next (as RTCDtlsTransport.__run does)",
    "transport send does not suspend (aioice UDP path)",
    "sampling, not enumeration: a clean batch is evidence, not proof",
]


def _sctp(profile, rule, level="exploration", quick_s=40, thorough_s=600, probes=()):
    def build():
        from ..engines import sctp_sim
        return {
            "fn": sctp_sim.run, "spec": {"profile": profile}, "level": level,
            "quick_s": quick_s, "thorough_s": thorough_s, "rule": rule,
            "components": SCTP_COMPONENTS, "state_measure": SCTP_STATE_MEASURE,
            "assumptions": SCTP_ASSUME, "probes_expected": list(probes),
        }
    return build


RULE_SCTP = ("each evaluation is one simulated run: a generated program of create/send/close ops on two real "
             "RTCSctpTransports over SimNet with a seeded fault schedule, then heal and liveness probes; a run is "
             "non-trivial when >=1 fault fired and >=1 message was delivered; distinct = distinct event-log digests "
             "among non-trivial runs")

REGISTRY = {
    "C01": _sctp("c01", RULE_SCTP, probes=["fragmented_messages", "empty_messages", "messages_delivered"]),
    "C02": _sctp("c02", RULE_SCTP, probes=["drained_after_heal", "probe_delivered"]),
    "C06": _sctp("c06", RULE_SCTP, probes=["probe_delivered"]),
    "C08": _sctp("c01", RULE_SCTP, probes=["wire_roundtrips"]),
    "C13": _sctp("c13", RULE_SCTP, probes=["id_reused", "close_before_id_assigned"]),
}
