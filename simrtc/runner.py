"""Runner: fork-per-run execution, parallel exploration, aggregation.

Each simulated run executes in a forked child of a warm worker, so a run cannot
inherit PRNG state, rebound module names, leaked tasks/threads or mutated
module-level tables from a previous run, and a hung run is killed without
losing the worker.  "Replay in a fresh process" is the normal mode.
"""

import faulthandler
import json
import os
import select
import signal
import sys
import time
import traceback
from collections import Counter

WALL_TIMEOUT = float(os.environ.get("VERIF_RUN_WALL_TIMEOUT", "45"))


def _child(fn, spec, wfd):
    try:
        faulthandler.enable()
        # watchdog inside the child too, so that a spinning callback is diagnosed (and reported with its
        # replay) rather than the child being killed from outside
        signal.signal(signal.SIGALRM, _alarm)
        signal.setitimer(signal.ITIMER_REAL, max(20.0, WALL_TIMEOUT / 3))
        res = fn(spec)
        signal.setitimer(signal.ITIMER_REAL, 0)
    except BaseException as exc:  # noqa: harness failure, never a violation
        res = {
            "verdict": "harness_error",
            "detail": "".join(traceback.format_exception(exc))[-4000:],
        }
    try:
        data = json.dumps(res, default=str).encode()
    except Exception as exc:  # noqa
        data = json.dumps({"verdict": "harness_error", "detail": "unserialisable result: %r" % (exc,)}).encode()
    try:
        with os.fdopen(wfd, "wb") as f:
            f.write(data)
    finally:
        os._exit(0)


def fork_run(fn, spec, wall_timeout=None):
    """Run fn(spec) in a forked child; returns its JSON result dict."""
    wall_timeout = wall_timeout or WALL_TIMEOUT
    rfd, wfd = os.pipe()
    pid = os.fork()
    if pid == 0:
        os.close(rfd)
        _child(fn, spec, wfd)
    os.close(wfd)
    chunks = []
    deadline = time.monotonic() + wall_timeout
    timed_out = False
    while True:
        left = deadline - time.monotonic()
        if left <= 0:
            timed_out = True
            break
        r, _, _ = select.select([rfd], [], [], min(left, 5.0))
        if r:
            b = os.read(rfd, 1 << 20)
            if not b:
                break
            chunks.append(b)
    os.close(rfd)
    if timed_out:
        try:
            os.kill(pid, signal.SIGKILL)
        except ProcessLookupError:
            pass
        os.waitpid(pid, 0)
        return {"verdict": "wall_timeout", "detail": "run exceeded %.0fs wall" % wall_timeout}
    os.waitpid(pid, 0)
    raw = b"".join(chunks)
    if not raw:
        return {"verdict": "harness_error", "detail": "child died without a result"}
    try:
        return json.loads(raw)
    except Exception as exc:  # noqa
        return {"verdict": "harness_error", "detail": "bad child output: %r" % (exc,)}


class Aggregate:
    """Mergeable summary of a batch of runs."""

    MAX_STATES = 400_000
    MAX_DIGESTS = 2_000_000

    def __init__(self):
        self.runs = 0
        self.ok = 0
        self.nontrivial = 0
        self.digests = set()
        self.faults = Counter()
        self.probes = Counter()
        self.exempt = Counter()
        self.states = set()
        self.transitions = set()
        self.sim_seconds = 0.0
        self.steps = 0
        self.violations = []  # full results, first per signature
        self.violation_count = Counter()
        self.harness_errors = []
        self.harness_error_count = 0
        self.timeouts = 0
        self.samples = []
        self.first_run = None
        self.last_run = None
        self.configs = Counter()

    def add(self, run_index, res):
        self.runs += 1
        self.first_run = run_index if self.first_run is None else min(self.first_run, run_index)
        self.last_run = run_index if self.last_run is None else max(self.last_run, run_index)
        v = res.get("verdict")
        if v == "harness_error" or v == "wall_timeout":
            self.harness_error_count += 1
            if v == "wall_timeout":
                self.timeouts += 1
            if len(self.harness_errors) < 5:
                self.harness_errors.append({"run": run_index, "verdict": v, "detail": res.get("detail")})
            return
        if v == "ok":
            self.ok += 1
        elif v == "violation":
            sig = res.get("signature", "?")
            self.violation_count[sig] += 1
            if self.violation_count[sig] == 1 and len(self.violations) < 40:
                self.violations.append(res)
        for k, n in (res.get("faults") or {}).items():
            self.faults[k] += n
        for k, n in (res.get("probes") or {}).items():
            self.probes[k] += n
        for k, n in (res.get("exempt") or {}).items():
            self.exempt[k] += n
        if res.get("config_class"):
            self.configs[res["config_class"]] += 1
        self.sim_seconds += res.get("sim_seconds", 0.0)
        self.steps += res.get("steps", 0)
        if res.get("nontrivial"):
            self.nontrivial += 1
            if len(self.digests) < self.MAX_DIGESTS and res.get("digest"):
                self.digests.add(res["digest"])
        if len(self.states) < self.MAX_STATES:
            self.states.update(res.get("states") or ())
        if len(self.transitions) < self.MAX_STATES:
            self.transitions.update(res.get("transitions") or ())
        if len(self.samples) < 3 and res.get("sample") is not None and res.get("nontrivial"):
            self.samples.append(res["sample"])

    def to_json(self):
        return {
            "runs": self.runs, "ok": self.ok, "nontrivial": self.nontrivial,
            "digests": sorted(self.digests), "faults": dict(self.faults),
            "probes": dict(self.probes), "exempt": dict(self.exempt),
            "states": sorted(self.states), "transitions": sorted(self.transitions),
            "sim_seconds": self.sim_seconds, "steps": self.steps,
            "violations": self.violations, "violation_count": dict(self.violation_count),
            "harness_errors": self.harness_errors, "harness_error_count": self.harness_error_count,
            "timeouts": self.timeouts, "samples": self.samples,
            "first_run": self.first_run, "last_run": self.last_run,
            "configs": dict(self.configs),
        }

    def merge_json(self, d):
        self.runs += d["runs"]
        self.ok += d["ok"]
        self.nontrivial += d["nontrivial"]
        self.digests.update(d["digests"])
        self.faults.update(d["faults"])
        self.probes.update(d["probes"])
        self.exempt.update(d["exempt"])
        self.states.update(d["states"])
        self.transitions.update(d["transitions"])
        self.sim_seconds += d["sim_seconds"]
        self.steps += d["steps"]
        for v in d["violations"]:
            sig = v.get("signature", "?")
            if not any(x.get("signature") == sig for x in self.violations):
                self.violations.append(v)
        self.violation_count.update(d["violation_count"])
        self.harness_errors.extend(d["harness_errors"])
        self.harness_errors = self.harness_errors[:8]
        self.harness_error_count += d["harness_error_count"]
        self.timeouts += d["timeouts"]
        for s in d["samples"]:
            if len(self.samples) < 4:
                self.samples.append(s)
        for k in ("first_run",):
            if d[k] is not None:
                self.first_run = d[k] if self.first_run is None else min(self.first_run, d[k])
        if d["last_run"] is not None:
            self.last_run = d["last_run"] if self.last_run is None else max(self.last_run, d["last_run"])
        self.configs.update(d["configs"])


from .loop import RunTimeout  # noqa: E402


def _alarm(signum, frame):
    from . import loop as _loop
    _loop.watchdog_fired(frame)
    raise RunTimeout()


def _worker(fn, base_spec, start, nworkers, deadline, max_runs, wfd, run_timeout):
    """Worker process: runs indices start, start+W, start+2W, ... sequentially
    in-process until the deadline.  (fork() is globally serialised in this
    sandbox at ~15 ms, so a fork per run would cap 16 cores at ~65 runs/s;
    isolation between runs is the engine's job - fresh loop, re-bound seams -
    and is checked by the determinism self-test and by re-executing every
    violation in a fresh process before it is reported.)  A run that exceeds
    the wall budget is interrupted by SIGALRM; the worker then retires and the
    parent starts a fresh one at the next index."""
    agg = Aggregate()
    i = start
    resume = None
    signal.signal(signal.SIGALRM, _alarm)
    try:
        while time.monotonic() < deadline and i < max_runs:
            spec = dict(base_spec, run=i)
            signal.setitimer(signal.ITIMER_REAL, run_timeout)
            try:
                res = fn(spec)
                signal.setitimer(signal.ITIMER_REAL, 0)
            except RunTimeout:
                agg.add(i, {"verdict": "wall_timeout", "detail": "run exceeded %.0fs wall" % run_timeout})
                resume = i + nworkers
                break
            except BaseException as exc:  # noqa
                signal.setitimer(signal.ITIMER_REAL, 0)
                res = {"verdict": "harness_error",
                       "detail": "".join(traceback.format_exception(exc))[-4000:]}
            agg.add(i, res)
            i += nworkers
    except BaseException as exc:  # noqa
        agg.harness_error_count += 1
        agg.harness_errors.append({"run": i, "verdict": "worker_error",
                                   "detail": "".join(traceback.format_exception(exc))[-2000:]})
    signal.setitimer(signal.ITIMER_REAL, 0)
    out = agg.to_json()
    out["resume"] = resume
    try:
        with os.fdopen(wfd, "wb") as f:
            f.write(json.dumps(out, default=str).encode())
    finally:
        os._exit(0)


def explore(fn, base_spec, budget_s, max_runs, nworkers=None, batch=1, run_timeout=None):
    """Run fn over run indices 0..max_runs-1 on all cores until the wall budget
    is used (the cut is between runs, never inside one)."""
    nworkers = nworkers or int(os.environ.get("VERIF_WORKERS", os.cpu_count() or 4))
    nworkers = max(1, min(nworkers, max_runs))
    run_timeout = run_timeout or WALL_TIMEOUT
    deadline = time.monotonic() + budget_s
    hard = deadline + run_timeout + 60
    live = {}  # rfd -> (pid, chunks)

    def spawn(start):
        rfd, wfd = os.pipe()
        sys.stdout.flush()
        pid = os.fork()
        if pid == 0:
            os.close(rfd)
            for r2 in live:
                os.close(r2)
            _worker(fn, base_spec, start, nworkers, deadline, max_runs, wfd, run_timeout)
        os.close(wfd)
        live[rfd] = (pid, [])

    for w in range(nworkers):
        spawn(w)
    total = Aggregate()
    while live:
        left = hard - time.monotonic()
        if left <= 0:
            for rfd, (pid, _) in list(live.items()):
                try:
                    os.kill(pid, signal.SIGKILL)
                except ProcessLookupError:
                    pass
                os.waitpid(pid, 0)
                os.close(rfd)
                total.harness_error_count += 1
                total.harness_errors.append({"verdict": "worker_hung", "detail": "killed at hard deadline"})
            live.clear()
            break
        ready, _, _ = select.select(list(live), [], [], min(left, 5.0))
        for rfd in ready:
            b = os.read(rfd, 1 << 20)
            pid, chunks = live[rfd]
            if b:
                chunks.append(b)
                continue
            os.close(rfd)
            os.waitpid(pid, 0)
            del live[rfd]
            raw = b"".join(chunks)
            if not raw:
                total.harness_error_count += 1
                total.harness_errors.append({"verdict": "worker_died", "detail": "worker %d produced nothing" % pid})
                continue
            try:
                d = json.loads(raw)
                total.merge_json(d)
                if d.get("resume") is not None and time.monotonic() < deadline:
                    spawn(d["resume"])
            except Exception as exc:  # noqa
                total.harness_error_count += 1
                total.harness_errors.append({"verdict": "merge_error", "detail": repr(exc)})
    return total
