"""Semantic event log with an incremental digest.

Only semantic events (ops, datagram decisions with a parsed summary, message
deliveries, state changes, oracle evaluations), stamped with simulated time
and a global sequence number.  Never ids, task names, ciphertext or lengths of
DTLS handshake records.
"""

import hashlib
from collections import deque


class EventLog:
    def __init__(self, loop, keep=400):
        self.loop = loop
        self.seq = 0
        self._h = hashlib.sha256()
        self.tail = deque(maxlen=keep)
        self.keep_all = False
        self.all = []

    def add(self, kind, *fields):
        self.seq += 1
        rec = (self.seq, round(self.loop.time(), 6), kind) + fields
        s = repr(rec)
        self._h.update(s.encode())
        self._h.update(b"\n")
        self.tail.append(s)
        if self.keep_all:
            self.all.append(s)

    def digest(self):
        return self._h.hexdigest()[:24]
