"""Replay-file minimisation (own ddmin; budgeted).

A candidate is kept when the *same signature* persists.  Steps: truncate the op
list from the end; delete single ops / pairs; neutralise whole fault kinds per
stream; neutralise individual decisions, last to first; shrink sizes.
"""

import copy

from .runner import fork_run


class Minimiser:
    def __init__(self, run_fn, base_spec, replay, budget=300, log=None):
        self.run_fn = run_fn
        self.base_spec = base_spec
        self.best = copy.deepcopy(replay)
        self.sig = replay["expect"]["signature"]
        self.budget = budget
        self.execs = 0
        self.log = log or (lambda *a: None)

    def _try(self, cand):
        if self.execs >= self.budget:
            return False
        self.execs += 1
        spec = dict(self.base_spec, replay=cand, run=cand.get("run", 0), seed=cand.get("seed", 0))
        res = fork_run(self.run_fn, spec)
        if res.get("verdict") == "violation" and res.get("signature") == self.sig:
            # adopt the re-recorded replay (streams re-aligned, fresh digest)
            new = res["replay"]
            self.best = new
            return True
        return False

    def _ops_truncate(self):
        ops = self.best["ops"]
        n = len(ops)
        step = max(1, n // 2)
        while step >= 1 and self.execs < self.budget:
            ops = self.best["ops"]
            if len(ops) - step >= 1:
                cand = copy.deepcopy(self.best)
                cand["ops"] = ops[: len(ops) - step]
                if self._try(cand):
                    continue
            step //= 2

    def _ops_delete(self):
        i = len(self.best["ops"]) - 1
        while i >= 0 and self.execs < self.budget:
            ops = self.best["ops"]
            if i < len(ops) and len(ops) > 1:
                cand = copy.deepcopy(self.best)
                del cand["ops"][i]
                self._try(cand)
            i -= 1

    def _neutralise_streams(self):
        for stream in sorted(self.best["streams"]):
            if stream in ("cfg", "wl"):
                continue
            lst = self.best["streams"][stream]
            if not lst or all(x is None for x in lst):
                continue
            cand = copy.deepcopy(self.best)
            cand["streams"][stream] = []
            if self._try(cand):
                continue
            # halves
            n = len(lst)
            for lo, hi in ((n // 2, n), (0, n // 2)):
                cand = copy.deepcopy(self.best)
                l2 = cand["streams"].get(stream, [])
                for k in range(lo, min(hi, len(l2))):
                    l2[k] = None
                self._try(cand)

    def _neutralise_decisions(self):
        # individual non-default decisions in network streams, last to first
        for stream in sorted(self.best["streams"]):
            if not stream.startswith("net"):
                continue
            idxs = [i for i, d in enumerate(self.best["streams"][stream])
                    if isinstance(d, list) and d and d[0] != 0]
            for i in reversed(idxs):
                if self.execs >= self.budget:
                    return
                lst = self.best["streams"].get(stream, [])
                if i >= len(lst) or lst[i] is None:
                    continue
                cand = copy.deepcopy(self.best)
                cand["streams"][stream][i] = None
                self._try(cand)

    def _shrink_sizes(self):
        for i in range(len(self.best["ops"])):
            if self.execs >= self.budget:
                return
            op = self.best["ops"][i] if i < len(self.best["ops"]) else None
            if not op:
                continue
            for key, small in (("size", [1, 1201]), ("count", [2, 4]), ("t", [0.0])):
                if key in op:
                    for v in small:
                        if isinstance(op[key], (int, float)) and not isinstance(op[key], bool) and v < op[key]:
                            cand = copy.deepcopy(self.best)
                            cand["ops"][i][key] = v
                            if self._try(cand):
                                break

    def run(self):
        n0 = len(self.best["ops"])
        self._ops_truncate()
        self._neutralise_streams()
        self._ops_delete()
        self._shrink_sizes()
        self._neutralise_decisions()
        self.log("minimised ops %d -> %d in %d executions" % (n0, len(self.best["ops"]), self.execs))
        return self.best
