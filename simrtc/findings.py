"""Known findings: /verif/known_findings.json is committed and never written at
run time.  `known` entries are matched by (property, exact signature) so that a
different violation of the same property is still reported; `fixed` entries
are documentation and suppress nothing."""

import json
import os

PATH = os.path.join(os.path.dirname(os.path.dirname(os.path.abspath(__file__))), "known_findings.json")


def load():
    try:
        with open(PATH) as f:
            return json.load(f).get("findings", [])
    except FileNotFoundError:
        return []


def known_for(prop):
    return [f for f in load() if f.get("kind") == "known" and f.get("property") == prop]


def match(prop, signature, known=None):
    known = known_for(prop) if known is None else known
    for f in known:
        sigs = f.get("signatures") or [f.get("signature")]
        if signature in sigs:
            return f
    return None
