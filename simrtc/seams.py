"""Seams: rebinding of module-level names so that every source of
nondeterminism aiortc reads is owned by the simulator.  No file in /repo is
touched; each run happens in a forked child, so nothing has to be restored.
"""

import datetime
import os
import random
import sys
import time

EPOCH = 1_700_000_000.0  # simulated wall clock at loop.time() == 0


def setup_import_path():
    """Make `import aiortc` resolve to the working tree under test."""
    src = os.environ.get("AIORTC_SRC", "/repo/src")
    if src not in sys.path:
        sys.path.insert(0, src)
    return src


_ORIG = {"time": time.time, "urandom": os.urandom}


def teardown_loop(loop):
    """End of a run: cancel whatever is left, let it unwind, close the loop,
    and give the real clock/RNG back (the next run installs its own)."""
    import asyncio
    loop.step_hook = None
    loop.choices = None
    loop.stall_until.clear()
    loop.stall_rate = 0.0
    loop.max_steps = loop.steps + 200_000
    try:
        for _ in range(3):
            tasks = [t for t in asyncio.all_tasks(loop) if not t.done()]
            if not tasks:
                break
            for t in tasks:
                t.cancel()
            loop.run_until_complete(asyncio.gather(*tasks, return_exceptions=True))
    except BaseException:  # noqa
        pass
    try:
        loop.close()
    except BaseException:  # noqa
        pass
    asyncio.set_event_loop(None)
    time.time = _ORIG["time"]
    os.urandom = _ORIG["urandom"]
    try:
        import aiortc.clock
        aiortc.clock.current_datetime = _ORIG.get("current_datetime", aiortc.clock.current_datetime)
    except Exception:  # noqa
        pass


class Seams:
    def __init__(self, loop, seed):
        self.loop = loop
        self.wall_offset = 0.0  # clock jumps injected by scenarios
        self._rng = random.Random(seed ^ 0x5EED)
        self.urandom_calls = 0

    # wall clock = EPOCH + simulated time + offset
    def wall(self):
        return EPOCH + self.loop.time() + self.wall_offset

    def urandom(self, n):
        self.urandom_calls += 1
        return self._rng.randbytes(n)

    def now_datetime(self):
        return datetime.datetime.fromtimestamp(self.wall(), datetime.timezone.utc)

    def install(self):
        time.time = self.wall
        os.urandom = self.urandom
        random.seed(self._rng.getrandbits(64))
        import aiortc.clock

        _ORIG.setdefault("current_datetime", aiortc.clock.current_datetime)
        aiortc.clock.current_datetime = self.now_datetime
        return self
