"""Choices: every harness-made nondeterministic decision, as named recorded streams.

Explore mode: each stream is its own PRNG derived from (seed, stream name); every
draw is recorded as a small JSON value.  Replay mode: each stream is a list
consumed in order; a missing / null entry yields the *benign default* of the
call site (deliver, base latency, FIFO, no stall, ...).  Separate streams keep
the network's decisions from shifting when a workload op is removed, which is
what makes minimisation work.  Nothing here reads a clock.
"""

import hashlib
import random


def derive_seed(*parts):
    h = hashlib.sha256("/".join(str(p) for p in parts).encode()).digest()
    return int.from_bytes(h[:8], "big")


class Choices:
    def __init__(self, seed=None, trace=None, record=True):
        self.seed = seed
        self.replay = trace is not None
        self._trace = {k: list(v) for k, v in (trace or {}).items()}
        self._pos = {}
        self._rngs = {}
        self.recorded = {}
        self.record = record
        self.draws = 0

    # -- internals -----------------------------------------------------
    def _rng(self, stream):
        r = self._rngs.get(stream)
        if r is None:
            r = self._rngs[stream] = random.Random(derive_seed(self.seed, stream))
        return r

    def _next_replay(self, stream):
        lst = self._trace.get(stream)
        i = self._pos.get(stream, 0)
        self._pos[stream] = i + 1
        if lst is None or i >= len(lst):
            return None
        return lst[i]

    def _rec(self, stream, value):
        self.draws += 1
        if self.record:
            self.recorded.setdefault(stream, []).append(value)
        return value

    # -- draw kinds ----------------------------------------------------
    def chance(self, stream, p, default=False):
        if self.replay:
            v = self._next_replay(stream)
            v = default if v is None else bool(v)
        else:
            v = self._rng(stream).random() < p
        self._rec(stream, 1 if v else 0)
        return v

    def index(self, stream, n, default=0):
        """Integer in [0, n)."""
        if self.replay:
            v = self._next_replay(stream)
            v = default if v is None else int(v)
            if v >= n or v < 0:
                v = default
        else:
            v = self._rng(stream).randrange(n)
        return self._rec(stream, v)

    def randint(self, stream, a, b, default=None):
        if default is None:
            default = a
        if self.replay:
            v = self._next_replay(stream)
            v = default if v is None else int(v)
            if v < a or v > b:
                v = default
        else:
            v = self._rng(stream).randint(a, b)
        return self._rec(stream, v)

    def uniform(self, stream, a, b, default=None):
        if default is None:
            default = a
        if self.replay:
            v = self._next_replay(stream)
            v = default if v is None else float(v)
        else:
            # round so that JSON round-trips exactly
            v = round(self._rng(stream).uniform(a, b), 6)
        return self._rec(stream, v)

    def choice(self, stream, seq, default=0):
        return seq[self.index(stream, len(seq), default)]

    def weighted(self, stream, weights, default=0):
        """Index drawn with the given weights."""
        if self.replay:
            v = self._next_replay(stream)
            v = default if v is None else int(v)
            if v < 0 or v >= len(weights):
                v = default
        else:
            tot = sum(weights)
            x = self._rng(stream).random() * tot
            v = len(weights) - 1
            acc = 0.0
            for i, w in enumerate(weights):
                acc += w
                if x < acc:
                    v = i
                    break
        return self._rec(stream, v)

    def raw(self, stream, gen, default):
        """Composite decision: gen(rng) -> JSON value in explore mode."""
        if self.replay:
            v = self._next_replay(stream)
            if v is None:
                v = default
        else:
            v = gen(self._rng(stream))
        return self._rec(stream, v)

    def bytes(self, stream, n):
        """Deterministic pseudo-random bytes (not recorded: derived from a
        recorded 48-bit key so that replay reproduces them)."""
        key = self.randint(stream, 0, (1 << 48) - 1, default=0)
        return random.Random(key).randbytes(n)

    def trace(self):
        return self.recorded
