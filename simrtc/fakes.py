"""In-process fakes: SimIceConnection implements the surface of
`aioice.Connection` that aiortc uses, on top of SimNet links.  Its observable
semantics (which calls raise ConnectionError and when, what `get_event()`
returns after close, which datagrams are consumed as STUN, `send()` never
suspending) mirror aioice 0.10; the connectivity checks themselves are not
simulated.
"""

import asyncio
import random

from .loop import NODE, node_context
from .net import BENIGN, Link, Profile

try:
    from aioice import Candidate, ConnectionClosed
    from aioice import stun as _stun
except Exception:  # pragma: no cover
    Candidate = None
    ConnectionClosed = None
    _stun = None

ALNUM = "abcdefghijklmnopqrstuvwxyzABCDEFGHIJKLMNOPQRSTUVWXYZ0123456789"


def classify_datagram(data):
    """Traffic class by first byte, exactly as RTCDtlsTransport._recv_next demultiplexes."""
    if not data:
        return "empty"
    b = data[0]
    if 19 < b < 64:
        if b == 23:
            return "dtls-app"
        return "dtls-hs"
    if 127 < b < 192:
        if len(data) >= 2 and 192 <= data[1] <= 208:
            return "srtcp"
        return "srtp"
    return "other"


def gen_turn(ch, nodes, stream="cfg", chance=0.12):
    """Seeded TURN-like configuration for IceFabric.turn (None in most runs)."""
    if not ch.chance(stream, chance):
        return None
    # (kept light: a relay that stalls every third send for 200 ms cannot carry media at all - the receive loop
    # then falls behind without bound, which is overload, not a fault the properties talk about)
    return {"node": ch.choice(stream, list(nodes) + ["*"]), "nth": ch.choice(stream, [7, 20, 50, 200]),
            "dur": ch.choice(stream, [0.0, 0.01, 0.05])}


class IceFabric:
    """One per world: creates connections, pairs them, owns the links."""

    def __init__(self, loop, choices, seed, profiles=None, class_profiles=None):
        self.loop = loop
        self.choices = choices
        self.rng = random.Random(seed ^ 0x1CE)
        self.conns = []
        self.ctx = {}                   # node -> Context
        self.profiles = profiles or {}  # (src node, dst node) -> Profile
        self.class_profiles = class_profiles or {}   # (src, dst) -> {class: Profile}
        self.links = []
        self.taps = []                  # tap(src_node, dst_node, event, data, info)
        self.connect_delay = 0.05
        self.gather_delay = 0.01
        self.check_timeout = 30.0
        self.consent_timeout = 30.0
        self.send_yields = False        # buggify: transport send suspends once (TURN path)
        # buggify: like a TURN relay, every nth send of one node's connections suspends for `dur` seconds (aioice's
        # TurnClientMixin.send_data awaits a channel bind / refresh); {"node": "A", "nth": 7, "dur": 0.05} or None
        self.turn = None
        self.turn_suspensions = 0
        self.holds = {}                 # (src node, dst node) -> Link.hold specification
        self.distinct_credentials = False
        self.heal_at = None
        self.classify = classify_datagram
        self.serial = 0

    def context(self, node):
        if node not in self.ctx:
            self.ctx[node] = node_context(node)
        return self.ctx[node]

    def make_connection(self, ice_controlling, components=1, local_username=None, local_password=None, **kw):
        node = NODE.get()
        self.serial += 1
        if self.distinct_credentials:
            # an ICE agent per transport with credentials of its own (RFC 8839 allows a description whose media
            # sections carry different ice-ufrag / ice-pwd); aiortc asks for the first transport's, and is not given them
            local_username = local_password = None
        c = SimIceConnection(self, node, self.serial, ice_controlling, local_username, local_password)
        self.conns.append(c)
        return c

    def rand_string(self, n):
        return "".join(self.rng.choice(ALNUM) for _ in range(n))

    def find_peer(self, conn):
        # all transports of one peer connection share ICE credentials: the candidates decide which is which
        for other in self.conns:
            if other is conn or other._closed or other.node == conn.node:
                continue
            if other.peer not in (None, conn):
                continue
            if (other._local_username == conn.remote_username and other._local_password == conn.remote_password
                    and other.remote_username == conn._local_username
                    and other.remote_password == conn._local_password
                    and (conn._knows(other) or other._knows(conn))):
                return other
        return None

    def heal(self):
        self.heal_at = self.loop.time()
        for link in self.links:
            link.heal_at = self.heal_at

    def make_link(self, src, dst):
        key = (src.node, dst.node)
        link = Link(self.loop, self.choices, "net.%s2%s.%d" % (src.node, dst.node, src.serial), dst._on_datagram_link,
                    self.context(dst.node), self.profiles.get(key, BENIGN), heal_at=self.heal_at,
                    classify=self.classify, class_profiles=self.class_profiles.get(key))
        link.hold = self.holds.get(key)
        if self.taps:
            def tap(event, data, info, _s=src.node, _d=dst.node):
                for t in self.taps:
                    t(_s, _d, event, data, info)
            link.tap = tap
        self.links.append(link)
        return link


class SimIceConnection:
    def __init__(self, fabric, node, serial, ice_controlling, local_username, local_password):
        self.fabric = fabric
        self.node = node
        self.serial = serial
        self.ice_controlling = ice_controlling
        self.remote_is_lite = False
        self.remote_username = None
        self.remote_password = None
        self._local_username = local_username or fabric.rand_string(4)
        self._local_password = local_password or fabric.rand_string(22)
        self._local_candidates = []
        self._local_candidates_start = False
        self._local_candidates_end = False
        self._remote_candidates = []
        self._remote_candidates_end = False
        self._queue = asyncio.Queue()
        self._event_waiter = None
        self._closed = False
        self._nominated = False
        self._connecting = False
        self._abort_connect = False
        self.peer = None
        self.link_out = None
        self.vanished = False       # abrupt loss of this endpoint: nothing in, nothing out
        self.stun_consumed = 0
        self._consent_handle = None

    # -- aioice.Connection surface -------------------------------------------------
    @property
    def local_candidates(self):
        return self._local_candidates[:]

    @property
    def local_username(self):
        return self._local_username

    @property
    def local_password(self):
        return self._local_password

    @property
    def remote_candidates(self):
        return self._remote_candidates[:]

    async def gather_candidates(self):
        if not self._local_candidates_start:
            self._local_candidates_start = True
            await asyncio.sleep(self.fabric.gather_delay)
            self._local_candidates.append(Candidate(
                foundation="f%d" % self.serial, component=1, transport="udp", priority=2130706431,
                host="10.0.%d.%d" % (self.serial // 250, 1 + self.serial % 250), port=40000 + self.serial,
                type="host"))
            self._local_candidates_end = True

    def get_default_candidate(self, component):
        for c in sorted(self._local_candidates, key=lambda x: x.priority):
            if c.component == component:
                return c
        return None

    async def add_remote_candidate(self, remote_candidate):
        if self._remote_candidates_end:
            raise ValueError("Cannot add remote candidate after end-of-candidates.")
        if remote_candidate is None:
            self._remote_candidates_end = True
            return
        self._remote_candidates.append(remote_candidate)

    def _knows(self, other):
        mine = {(c.host, c.port) for c in self._remote_candidates}
        return any((c.host, c.port) in mine for c in other._local_candidates)

    async def connect(self):
        if not self._local_candidates_end:
            raise ConnectionError("Local candidates gathering was not performed")
        if self.remote_username is None or self.remote_password is None:
            raise ConnectionError("Remote username or password is missing")
        self._connecting = True
        loop = self.fabric.loop
        deadline = loop.time() + self.fabric.check_timeout
        while True:
            if self._abort_connect or self._closed:
                raise ConnectionError("ICE negotiation failed")
            if self._nominated:
                break
            peer = self.fabric.find_peer(self)
            if (peer is not None and peer._connecting and not peer.vanished and not self.vanished
                    and (self._knows(peer) or peer._knows(self))):
                await asyncio.sleep(self.fabric.connect_delay)
                if self._abort_connect or self._closed or peer._closed:
                    raise ConnectionError("ICE negotiation failed")
                self._nominate(peer)
                peer._nominate(self)
                break
            if loop.time() >= deadline:
                raise ConnectionError("ICE negotiation failed")
            await asyncio.sleep(0.05)

    def _nominate(self, peer):
        if self._nominated:
            return
        self.peer = peer
        self.link_out = self.fabric.make_link(self, peer)
        self._nominated = True

    async def close(self):
        # same order of effects, and the same suspension points, as aioice.Connection.close()
        if self._connecting and not self._nominated:
            self._abort_connect = True          # check list -> ICE_FAILED
        if self._consent_handle is not None:
            self._consent_handle.cancel()
            self._consent_handle = None
        self._nominated = False
        protocols = len(self._local_candidates)
        for _ in range(protocols):
            # `await protocol.close()`: the UDP transport is closed and connection_lost() runs on the next
            # loop iteration; it also wakes a pending recv() with "connection lost"
            if self.link_out is not None:
                self.link_out.closed = True
            self._queue.put_nowait((None, None))
            await asyncio.sleep(0)
        if self.link_out is not None:
            self.link_out.closed = True
        self._local_candidates.clear()
        if not self._closed:
            self._emit_event(ConnectionClosed())
            self._closed = True

    def _emit_event(self, event):
        if self._event_waiter:
            waiter = self._event_waiter
            self._event_waiter = None
            if not waiter.done():
                waiter.set_result(event)

    async def get_event(self):
        assert self._event_waiter is None, "already awaiting event"
        if self._closed:
            return None
        loop = asyncio.get_event_loop()
        self._event_waiter = loop.create_future()
        return await asyncio.shield(self._event_waiter)

    async def recv(self):
        if not self._nominated:
            raise ConnectionError("Cannot receive data, not connected")
        result = await self._queue.get()
        if result[0] is None:
            raise ConnectionError("Connection lost while receiving data")
        return result[0]

    async def send(self, data):
        if not self._nominated:
            raise ConnectionError("Cannot send data, not connected")
        if self.fabric.send_yields:
            await asyncio.sleep(0)
            if not self._nominated:
                raise ConnectionError("Cannot send data, not connected")
        turn = self.fabric.turn
        if turn is not None and turn["node"] in (self.node, "*"):
            self._sends = getattr(self, "_sends", 0) + 1
            if self._sends % turn["nth"] == 0:
                self.fabric.turn_suspensions += 1
                await asyncio.sleep(turn["dur"])
                if not self._nominated:
                    raise ConnectionError("Cannot send data, not connected")
        if self.vanished:
            return
        self.link_out.send(bytes(data))

    # -- fabric side --------------------------------------------------------------------
    def _on_datagram_link(self, data, corrupted):
        self.inject(data)

    def inject(self, data):
        """A datagram arrives from the network (also used by hostile actors)."""
        if self._closed or self.vanished or not (self._nominated or self._local_candidates):
            return
        if _stun is not None:
            try:
                _stun.parse_message(data)
                self.stun_consumed += 1
                return          # STUN is consumed by the ICE agent
            except ValueError:
                pass
        self._queue.put_nowait((data, 1))

    def vanish(self):
        """Abrupt loss of this endpoint (process killed, cable pulled)."""
        self.vanished = True
        peer = self.peer
        if peer is not None and not peer._closed and peer._consent_handle is None:
            # the survivor's consent freshness checks fail; aioice then closes the connection
            peer._consent_handle = self.fabric.loop.call_later(
                self.fabric.consent_timeout, peer._consent_expired, context=self.fabric.context(peer.node))

    def _consent_expired(self):
        self._consent_handle = None
        if not self._closed:
            self.fabric.loop.create_task(self.close(), context=self.fabric.context(self.node))


# -- deterministic DTLS timers ------------------------------------------------------------
_dtls_patched = False


def patch_dtls_timers():
    """OpenSSL's DTLS retransmission timer reads the real clock.  The simulator
    never loses handshake datagrams, so retransmission is never needed: the
    timeout reported to aiortc is a constant (deterministic timer handles) and
    the timeout handler does nothing."""
    global _dtls_patched
    if _dtls_patched:
        return
    from OpenSSL import SSL
    orig_get = SSL.Connection.DTLSv1_get_timeout

    def get_timeout(self):
        return None if orig_get(self) is None else 1.0

    def handle_timeout(self):
        return False

    SSL.Connection.DTLSv1_get_timeout = get_timeout
    SSL.Connection.DTLSv1_handle_timeout = handle_timeout
    _dtls_patched = True


_cert_pool = []


def certificate_pool(n=4):
    """A few certificates per process (EC key generation uses OpenSSL's RNG;
    certificate bytes never enter an event log)."""
    from aiortc.rtcdtlstransport import RTCCertificate
    gen = getattr(RTCCertificate, "_sim_orig_generate", None) or RTCCertificate.generateCertificate
    if len(_cert_pool) < n:
        # outside the random seam: the pool is filled during the first run of a process, and the serial numbers drawn for
        # it must not move that run's seeded os.urandom stream relative to every later run (and to a replay)
        import os
        from .seams import _ORIG
        seamed = os.urandom
        os.urandom = _ORIG["urandom"]
        try:
            while len(_cert_pool) < n:
                _cert_pool.append(gen())
        finally:
            os.urandom = seamed
    return _cert_pool


def install_certificate_pool():
    from aiortc.rtcdtlstransport import RTCCertificate
    if getattr(RTCCertificate, "_sim_orig_generate", None) is None:
        RTCCertificate._sim_orig_generate = RTCCertificate.generateCertificate
    pool = certificate_pool()
    state = {"i": 0}

    def generate(cls=None):
        c = pool[state["i"] % len(pool)]
        state["i"] += 1
        return c

    RTCCertificate.generateCertificate = classmethod(lambda cls: generate())
    return state


class SerialHash:
    """Mixin-free helper: give instances of `cls` a hash that is a construction
    serial, so that `set` iteration order is a function of creation order."""

    @staticmethod
    def install(cls):
        if getattr(cls, "_sim_serial_hash", False):
            return
        counter = {"n": 0}
        orig_init = cls.__init__

        def __init__(self, *a, **kw):
            counter["n"] += 1
            self._sim_serial = counter["n"]
            orig_init(self, *a, **kw)

        def __hash__(self):
            return getattr(self, "_sim_serial", 0)

        cls.__init__ = __init__
        cls.__hash__ = __hash__
        cls._sim_serial_hash = True
        cls._sim_serial_counter = counter
