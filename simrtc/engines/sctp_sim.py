"""sctp_sim: two real RTCSctpTransports (and their RTCDataChannels) joined by
SimNet through a stub DTLS transport, driven by a generated program of
create / send / close / stop operations, judged by reference-model oracles for
C01, C02, C06, C08 (wire monitors), C13 and, differentially, C17.

Everything below the `RTCSctpTransport` API is the real code under test; the
DTLS/ICE layers are stubs that mirror RTCDtlsTransport's delivery discipline
(one datagram handled to completion before the next is taken, an exception
escaping `_handle_data` ends delivery).
"""

import asyncio
import struct
from collections import Counter, deque

from ..seams import setup_import_path

setup_import_path()
import aiortc.rtcsctptransport  # noqa: E402  warm import before forking runs
import aiortc.rtcdatachannel  # noqa: E402

from ..choices import Choices
from ..eventlog import EventLog
from ..loop import RunTimeout, SimBudgetExceeded, SimDeadlock, hang_frame, new_loop, node_context
from ..net import BENIGN, Link, Profile, random_profile
from ..seams import Seams, teardown_loop

B_LIVENESS = 600.0  # simulated seconds after the last fault (10 x SCTP_RTO_MAX)
POLL = 0.5


# ---------------------------------------------------------------------------
# stubs
# ---------------------------------------------------------------------------
class StubIce:
    def __init__(self, role):
        self.role = role


class StubDtls:
    """What RTCSctpTransport uses of RTCDtlsTransport."""

    def __init__(self, world, name, role):
        self.world = world
        self.name = name
        self.transport = StubIce(role)
        self.state = "connected"
        self._data_receiver = None
        self.link_out = None
        self.queue = asyncio.Queue()
        self.escaped = []  # exceptions that escaped _handle_data
        self.current_corrupted = False
        self.handled = 0

    def _register_data_receiver(self, receiver):
        assert self._data_receiver is None
        self._data_receiver = receiver

    def _unregister_data_receiver(self, receiver):
        if self._data_receiver == receiver:
            self._data_receiver = None

    async def _send_data(self, data):
        if self.state != "connected":
            raise ConnectionError("Cannot send encrypted data, not connected")
        tr = self.world.cfg.get("turn_refresh")
        if tr and tr["side"] == self.name:
            # buggify (separate configuration): on a TURN-relayed path aioice re-binds the channel every few
            # minutes, and every send issued while that STUN transaction is outstanding suspends for about a
            # round trip before the datagram leaves
            self.sends = getattr(self, "sends", 0) + 1
            now = self.world.loop.time()
            if self.sends == tr["nth"]:
                self.refresh_until = now + tr["dur"]
                self.world.probes["turn_refresh_windows"] += 1
            until = getattr(self, "refresh_until", 0.0)
            if now < until:
                self.world.probes["sends_suspended"] += 1
                self.world.suspended_sends += 1
                try:
                    await asyncio.sleep(until - now)
                finally:
                    self.world.suspended_sends -= 1
                if self.state != "connected":
                    raise ConnectionError("Cannot send encrypted data, not connected")
        self.world.on_wire(self.name, data)
        self.link_out.send(data)

    def on_datagram(self, data, corrupted):
        self.queue.put_nowait((data, corrupted))

    async def pump(self):
        # mirrors RTCDtlsTransport.__run: one datagram at a time, to completion
        while True:
            data, corrupted = await self.queue.get()
            if self.state != "connected":
                continue
            recv = self._data_receiver
            if recv is None:
                continue
            self.current_corrupted = corrupted
            self.handled += 1
            if corrupted:
                self.world.probes["corrupted_datagrams_handled"] += 1
            try:
                await recv._handle_data(data)
            except asyncio.CancelledError:
                raise
            except Exception as exc:  # noqa: observation, not a harness error
                self.escaped.append(exc)
                self.world.note_escape(self.name, exc)
                self.state = "closed"  # the real pump ends: DTLS -> closed
            finally:
                self.current_corrupted = False


def innermost_aiortc_frame(exc):
    tb = exc.__traceback__
    name = "?"
    while tb is not None:
        fn = tb.tb_frame.f_code.co_filename
        if "aiortc" in fn and "simrtc" not in fn:
            mod = fn.rsplit("/", 1)[-1].replace(".py", "")
            name = "%s.%s" % (mod, tb.tb_frame.f_code.co_name)
        tb = tb.tb_next
    return name


def exc_tag(exc):
    return "%s@%s" % (type(exc).__name__, innermost_aiortc_frame(exc))


# ---------------------------------------------------------------------------
# light, independent SCTP wire summary (never uses aiortc's parser)
# ---------------------------------------------------------------------------
CHUNK_NAMES = {0: "DATA", 1: "INIT", 2: "INIT_ACK", 3: "SACK", 4: "HB", 5: "HB_ACK", 6: "ABORT",
               7: "SHUTDOWN", 8: "SHUTDOWN_ACK", 9: "ERROR", 10: "COOKIE_ECHO", 11: "COOKIE_ACK",
               14: "SHUTDOWN_COMPLETE", 130: "RECONFIG", 192: "FORWARD_TSN"}


def wire_summary(data):
    if len(data) < 16:
        return ("short", len(data))
    ctype, flags, clen = struct.unpack_from("!BBH", data, 12)
    name = CHUNK_NAMES.get(ctype, ctype)
    if ctype == 0 and len(data) >= 28:
        tsn, sid, sseq, ppid = struct.unpack_from("!LHHL", data, 16)
        return (name, flags, tsn, sid, sseq, ppid, clen - 16)
    if ctype == 3 and len(data) >= 28:
        cum, rwnd, ng, nd = struct.unpack_from("!LLHH", data, 16)
        return (name, cum, ng, nd)
    if ctype == 192 and len(data) >= 20:
        return (name, struct.unpack_from("!L", data, 16)[0], (clen - 8) // 4)
    return (name, clen)


# ---------------------------------------------------------------------------
# payloads
# ---------------------------------------------------------------------------
FILL_CHARS = "aé€\U0001F600zЖ"  # 1,2,3,4,1,2 byte UTF-8


def make_payload(tag, side, counter, kind, size):
    """A message attributable to exactly one send(): header + filler.
    size 0 gives the empty message of the given kind."""
    if size == 0:
        return "" if kind == "str" else b""
    head = "%s|%s|%d|" % (tag, side, counter)
    if kind == "str":
        out = [head]
        n = len(head)
        i = counter
        while n < size:
            c = FILL_CHARS[i % len(FILL_CHARS)]
            out.append(c)
            n += len(c.encode("utf8"))
            i += 1
        return "".join(out)
    hb = head.encode()
    if len(hb) >= size:
        return hb
    fill = bytes(((counter * 7 + j * 13) & 0xFF) for j in range(min(size - len(hb), 251)))
    reps = (size - len(hb)) // len(fill) + 1
    return (hb + fill * reps)[:size]


def payload_header(msg):
    try:
        if isinstance(msg, str):
            parts = msg.split("|", 3)
        else:
            parts = bytes(msg[:64]).decode("ascii", "replace").split("|", 3)
        if len(parts) >= 4:
            return parts[0], parts[1], int(parts[2])
    except Exception:  # noqa
        pass
    return None


def short(msg):
    if isinstance(msg, str):
        return "str:%d:%s" % (len(msg.encode("utf8")), msg[:24])
    return "bytes:%d:%s" % (len(msg), bytes(msg[:24]).decode("ascii", "replace"))


# ---------------------------------------------------------------------------
# program generation
# ---------------------------------------------------------------------------
SIZES = [0, 1, 2, 3, 4, 5, 100, 1199, 1200, 1201, 2399, 2400, 2401, 3600, 4801, 7000, 12000,
         20000, 36000]
DTS = [0.0, 0.0, 0.0, 0.001, 0.005, 0.02, 0.1, 0.5, 2.0, 8.0]
UNI_LABELS = ["", "chat", "été", "日本語", "\U0001F600\U0001F680", "á̧b",
              "x" * 40, "שלום", "\U00010348|pipe", "tab\there", "\u0000nul"]


def gen_channel(ch, k, profile):
    c = {"tag": "c%d" % k, "side": ch.choice("wl", ["A", "B"]), "ordered": ch.chance("wl", 0.6),
         "maxRetransmits": None, "maxPacketLifeTime": None, "negotiated": False, "id": None,
         "label": "", "protocol": ""}
    pr = False
    if profile == "c06":
        pr = ch.chance("wl", 0.6) if k > 0 else True
    elif profile == "c13":
        pr = ch.chance("wl", 0.3)
    elif profile in ("c01", "c02", "c08") and k > 0:
        # "any number of concurrently used channels": a partially reliable neighbour in a share of runs
        pr = ch.chance("wl", 0.15)
    if pr:
        if ch.chance("wl", 0.5):
            c["maxRetransmits"] = ch.choice("wl", [0, 1, 3])
        else:
            c["maxPacketLifeTime"] = ch.choice("wl", [1, 50, 500, 3000])
    if ch.chance("wl", 0.2 if profile != "c13" else 0.3):
        c["negotiated"] = True
        c["id"] = 100 + 2 * k + ch.index("wl", 2)
    if profile == "c13":
        c["label"] = ch.choice("wl", UNI_LABELS)
        c["protocol"] = ch.choice("wl", UNI_LABELS)
    else:
        c["label"] = ch.choice("wl", ["", "lbl", "é"])
    return c


def generate(ch, profile):
    """-> (config, ops).  All draws come from streams `cfg` and `wl`."""
    cfg = {"profile": profile}
    cfg["origin"] = ch.choice("cfg", ["random", "small", "wrap", "wrap"])
    # stream sequence numbers of a long-lived stream: just below the 16-bit wrap in a share of runs
    cfg["sseq_origin"] = (65535 - ch.randint("cfg", 0, 40, 2)) if ch.chance("cfg", 0.35) else 0
    cfg["start_skew"] = ch.choice("cfg", [0.0, 0.0, 0.01, 0.3, 2.0])
    cfg["sched"] = ch.chance("cfg", 0.7, True)
    cfg["stall_rate"] = ch.choice("cfg", [0.0, 0.0, 0.002, 0.01])
    cfg["stall_max"] = ch.choice("cfg", [0.05, 1.0, 5.0])
    fault_free = ch.chance("cfg", 0.08)
    cfg["fault_free"] = fault_free
    if fault_free:
        cfg["a2b"] = Profile(base=ch.choice("cfg", [0.001, 0.05])).to_json()
        cfg["b2a"] = Profile(base=ch.choice("cfg", [0.001, 0.05])).to_json()
    else:
        cfg["a2b"] = random_profile(ch, "cfg", allow_corrupt=(profile == "c08")).to_json()
        cfg["b2a"] = random_profile(ch, "cfg", allow_corrupt=(profile == "c08")).to_json()
        if profile == "c08":
            # bit bursts in transit on a share of datagrams in both directions
            for d in ("a2b", "b2a"):
                cfg[d]["corrupt"] = max(cfg[d]["corrupt"], ch.choice("cfg", [0.02, 0.1, 0.3]))
        if ch.chance("cfg", 0.25):
            # one-way blackout (acks lost -> T3) somewhere in the fault phase
            t0 = ch.uniform("cfg", 0.0, 20.0)
            cfg["blackout"] = [ch.choice("cfg", ["a2b", "b2a"]), t0, t0 + ch.choice("cfg", [0.5, 3.0, 10.0, 70.0])]
    cfg["heal_delay"] = ch.choice("cfg", [0.0, 1.0, 5.0, 30.0, 90.0])
    if ch.chance("cfg", 0.12):
        cfg["turn_refresh"] = {"side": ch.choice("cfg", ["A", "B"]), "nth": ch.choice("cfg", [3, 6, 10, 20, 40, 80]),
                               "dur": ch.choice("cfg", [0.005, 0.05, 0.3])}
    cfg["lifecycle"] = profile in ("c01", "c02") and ch.chance("cfg", 0.2)
    if not fault_free and (cfg["lifecycle"] or profile in ("c13", "c06")) and ch.chance("cfg", 0.3):
        # control chunks that arrive very late: the n-th .. (n+k-1)-th datagram of one class in one direction is kept back
        # for seconds (a FORWARD-TSN, SACK or RE-CONFIG overtaken by everything sent after it, a close and a re-use included)
        cfg["hold_ctl"] = {"dir": ch.choice("cfg", ["A", "B"]), "cls": ch.choice("cfg", ["FORWARD_TSN", "FORWARD_TSN", "SACK", "RECONFIG"]),
                           "from": ch.choice("cfg", [1, 1, 2, 3, 5]), "count": ch.choice("cfg", [1, 2, 5, 1000]),
                           "dur": ch.choice("cfg", [0.5, 3.0, 10.0, 30.0])}
    if profile == "c13" and ch.chance("cfg", 0.3):
        # a bufferedamountlow listener that sends more (up to three times per channel end)
        cfg["refill_on_low"] = ch.choice("cfg", [1, 500, 1200, 3000])
    # SCTP ports of the two ends (the default 5000/5000 in most runs)
    cfg["ports"] = ch.choice("cfg", [[5000, 5000], [5000, 5000], [5000, 5000], [5001, 5002], [1, 65535], [6000, 5000]])
    if not fault_free and profile in ("c01", "c13") and ch.chance("wl", 0.1):
        return cfg, abandoned_then_reused(ch, cfg, profile)
    nchan = ch.choice("wl", [1, 1, 2, 2, 3, 4, 5])
    chans = [gen_channel(ch, k, profile) for k in range(nchan)]
    ops = []
    # creations first (some before the association exists), remaining ops mixed
    for c in chans:
        op = dict(c, op="create", t=ch.choice("wl", [0.0, 0.0, 0.001, 0.05, 0.5, 4.0]))
        ops.append(op)
        if c["negotiated"]:
            other = "B" if c["side"] == "A" else "A"
            ops.append({"op": "create_peer", "tag": c["tag"], "side": other,
                        "t": ch.choice("wl", [0.0, 0.0, 0.01, 1.0])})
        if profile == "c13" and ch.chance("wl", 0.4):
            # thresholds that queued amounts hit exactly (multiples of the burst sizes) and others
            ops.append({"op": "threshold", "tag": c["tag"], "side": c["side"], "t": 0.0,
                        "value": ch.choice("wl", [1, 5, 100, 1200, 2400, 2401, 2402, 3600, 4800, 5000, 10000])})
    nsend = ch.choice("wl", [3, 5, 8, 12, 20, 30, 45, 60])
    counters = Counter()
    closed = set()
    reused = set()
    for i in range(nsend):
        c = ch.choice("wl", chans)
        side = ch.choice("wl", ["A", "B"])
        r = ch.index("wl", 100)
        lifecycle = profile == "c13" or (profile in ("c01", "c02") and cfg.get("lifecycle"))
        if lifecycle and r < 12 and c["tag"] not in closed:
            ops.append({"op": "close", "tag": c["tag"], "side": side, "t": ch.choice("wl", DTS)})
            closed.add(c["tag"])
            others = [x for x in chans if x["tag"] not in closed]
            if others and ch.chance("wl", 0.35):
                # a second channel closed in the same tick: one stream reset request names both
                c2 = ch.choice("wl", others)
                ops.append({"op": "close", "tag": c2["tag"], "side": side, "t": 0.0})
                closed.add(c2["tag"])
            continue
        if lifecycle and c["tag"] in closed and r < 40 and c["tag"] not in reused:
            # re-use the id of a closed channel while faults are still active
            reused.add(c["tag"])
            ops.append({"op": "reuse", "tag": c["tag"], "newtag": "n%d" % len(reused), "side": side,
                        "t": ch.choice("wl", [0.0, 0.1, 0.5, 2.0, 8.0])})
            ops.append({"op": "send", "tag": "n%d" % len(reused), "side": side, "kind": "str", "size": 10, "t": 0.0})
            ops.append({"op": "send", "tag": "n%d" % len(reused), "side": "B" if side == "A" else "A",
                        "kind": "str", "size": 10, "t": ch.choice("wl", DTS)})
            # several messages each way on the channel that took over the id, while faults are active
            for sd in "AB":
                ops.append({"op": "burst", "tag": "n%d" % len(reused), "side": sd, "count": ch.choice("wl", [2, 4, 8]),
                            "size": ch.choice("wl", [10, 1201]), "kind": "str", "t": ch.choice("wl", [0.0, 0.0, 0.02])})
            continue
        if profile == "c13" and 24 <= r < 32:
            # the threshold moves while data may be buffered
            ops.append({"op": "threshold", "tag": c["tag"], "side": side, "t": ch.choice("wl", [0.0, 0.0, 0.001, 0.02]),
                        "value": ch.choice("wl", [0, 1, 7, 1200, 1500, 2401, 5000, 1000000])})
            continue
        if r < 6 or (profile in ("c02", "c06") and r < 18) or (profile == "c13" and 12 <= r < 24):
            # burst larger than the congestion window
            n = ch.choice("wl", [4, 8, 16, 30])
            size = ch.choice("wl", [1200, 1201, 2400, 5000])
            ops.append({"op": "burst", "tag": c["tag"], "side": side, "count": n, "size": size,
                        "kind": ch.choice("wl", ["str", "bytes"]), "t": ch.choice("wl", DTS)})
            continue
        ops.append({"op": "send", "tag": c["tag"], "side": side,
                    "kind": ch.choice("wl", ["str", "bytes"]),
                    "size": ch.choice("wl", SIZES), "t": ch.choice("wl", DTS)})
    if profile == "c13":
        # extra early closes (same tick as creation / before the DCEP ACK)
        if ch.chance("wl", 0.4):
            c = ch.choice("wl", chans)
            if c["tag"] not in closed:
                pos = next(i for i, o in enumerate(ops) if o["op"] == "create" and o["tag"] == c["tag"])
                ops.insert(pos + 1, {"op": "close", "tag": c["tag"], "side": c["side"],
                                     "t": ch.choice("wl", [0.0, 0.0, 0.001, 0.02, 0.2])})
                closed.add(c["tag"])
        if ch.chance("wl", 0.15):
            ops.append({"op": "stop", "side": ch.choice("wl", ["A", "B"]), "t": ch.choice("wl", DTS)})
        if ch.chance("wl", 0.35):
            # late channels with automatically chosen ids, one from each side in (nearly) the same instant, after
            # channels of either side's numbering have come and gone
            closes = [i for i, o in enumerate(ops) if o["op"] == "close"]
            pos = (ch.choice("wl", closes) + 1) if closes else len(ops)
            first = ch.choice("wl", ["A", "B"])
            late = []
            for j, sd in enumerate([first, "B" if first == "A" else "A"]):
                c = dict(gen_channel(ch, 90 + j, profile), tag="L%d" % j, side=sd, negotiated=False, id=None)
                late.append(dict(c, op="create", t=ch.choice("wl", [0.0, 0.3, 3.0]) if j == 0 else ch.choice("wl", [0.0, 0.0, 0.001, 0.05])))
                late.append({"op": "send", "tag": c["tag"], "side": sd, "kind": "str", "size": 10, "t": 0.0})
            ops[pos:pos] = late
    return cfg, ops


def abandoned_then_reused(ch, cfg, profile):
    """A family of runs steered towards one stretch of a stream id's life: an ordered partially reliable channel gives
    up on messages (loss on the way), its FORWARD-TSNs travel slowly, the channel is closed and the id taken over by a
    reliable channel while the receiver may still be waiting behind the gap; a reliable neighbour keeps SACKs flowing."""
    s = ch.choice("wl", ["A", "B"])
    o = "B" if s == "A" else "A"
    cfg["lifecycle"] = True
    cfg["hold_ctl"] = {"dir": s, "cls": "FORWARD_TSN", "from": ch.choice("wl", [1, 1, 2]), "count": ch.choice("wl", [5, 1000]),
                       "dur": ch.choice("wl", [1.0, 3.0, 10.0])}
    d = cfg["a2b" if s == "A" else "b2a"]
    d["drop"] = max(d.get("drop", 0.0), ch.choice("wl", [0.05, 0.15, 0.3]))
    if ch.chance("wl", 0.7):
        # (what the new channel sends first does not arrive in sending order)
        d["reorder"] = max(d.get("reorder", 0.0), ch.choice("wl", [0.2, 0.5]))
        d["reorder_max"] = max(d.get("reorder_max", 0.0), ch.choice("wl", [0.02, 0.2, 1.0]))
    base = {"ordered": True, "maxRetransmits": None, "maxPacketLifeTime": None, "negotiated": False, "id": None,
            "label": "", "protocol": ""}
    ops = [dict(base, tag="c0", side=s, op="create", t=0.0, **({"maxRetransmits": 0} if ch.chance("wl", 0.6) else
                                                               {"maxPacketLifeTime": ch.choice("wl", [1, 50])})),
           dict(base, tag="c1", side=ch.choice("wl", [s, o]), op="create", t=0.0)]
    for j in range(ch.choice("wl", [6, 12, 24])):
        # (the first one once the association is likely to be up: sends on a channel that is not open yet are skipped)
        ops.append({"op": "send", "tag": "c0", "side": s, "kind": "str", "size": ch.choice("wl", [1, 100, 1201]),
                    "t": ch.choice("wl", [0.0, 0.001, 0.02, 0.1]) if j else ch.choice("wl", [3.0, 6.0, 10.0])})
        if ch.chance("wl", 0.6):
            ops.append({"op": "burst", "tag": "c1", "side": s, "count": ch.choice("wl", [1, 2, 4]), "size": 100, "kind": "str",
                        "t": ch.choice("wl", [0.0, 0.02, 0.1])})
    ops.append({"op": "close", "tag": "c0", "side": ch.choice("wl", [s, o]), "t": ch.choice("wl", [0.0, 0.1, 0.5, 2.0])})
    for k in range(6):
        # (the id is only taken once both ends report the old channel closed: several attempts, the first that finds it so)
        ops.append({"op": "burst", "tag": "c1", "side": s, "count": 2, "size": 100, "kind": "str", "t": ch.choice("wl", [0.05, 0.3, 1.0, 2.0])})
        ops.append({"op": "reuse", "tag": "c0", "newtag": "n1", "side": s, "t": 0.0})
        if k == 0 or ch.chance("wl", 0.5):
            ops.append({"op": "burst", "tag": "n1", "side": s, "count": ch.choice("wl", [3, 6, 10]), "size": ch.choice("wl", [10, 1201]),
                        "kind": "str", "t": ch.choice("wl", [0.0, 0.0, 0.02, 0.3])})
    for _ in range(ch.choice("wl", [0, 4, 8])):
        # (the new channel keeps sending a little while the old life's stragglers come in)
        ops.append({"op": "burst", "tag": "n1", "side": s, "count": ch.choice("wl", [1, 2]), "size": 10, "kind": "str",
                    "t": ch.choice("wl", [0.1, 0.5, 1.0, 3.0])})
    ops.append({"op": "burst", "tag": "n1", "side": o, "count": 3, "size": 10, "kind": "str", "t": 0.1})
    return ops


# ---------------------------------------------------------------------------
# the world
# ---------------------------------------------------------------------------
class ChanModel:
    """Reference model of one data channel (both ends)."""

    def __init__(self, spec):
        self.spec = spec
        self.tag = spec["tag"]
        self.creator = spec["side"]
        self.reliable = spec["maxRetransmits"] is None and spec["maxPacketLifeTime"] is None
        self.ordered = spec["ordered"]
        self.obj = {"A": None, "B": None}       # RTCDataChannel per side
        self.sent = {"A": [], "B": []}          # by sending side
        self.recv = {"A": [], "B": []}          # by *sending* side (what the other end got)
        self.recv_idx = {"A": [], "B": []}      # indices into sent (attribution)
        self.counter = {"A": 0, "B": 0}
        self.states = {"A": [], "B": []}
        self.opens = {"A": 0, "B": 0}
        self.closes = {"A": 0, "B": 0}
        self.close_called = None                # simulated time of first close()
        self.dc_events = 0
        self.broken = False                     # a violation already reported
        self.exempt = False                     # affected by a known, tolerated situation
        # bufferedAmount model per side
        self.accepted = {"A": deque(), "B": deque()}   # (lo, hi) per queued message
        self.low_events = {"A": 0, "B": 0}
        self.refills = {"A": 0, "B": 0}
        self.low_expected = {"A": 0, "B": 0}
        self.low_ambiguous = {"A": False, "B": False}
        self.model_amount = {"A": [0, 0], "B": [0, 0]}  # [lo, hi]
        self.threshold = {"A": 0, "B": 0}


class World:
    def __init__(self, spec, choices, cfg, ops, props):
        self.spec = spec
        self.ch = choices
        self.cfg = cfg
        self.ops = ops
        self.props = props  # set of property ids whose oracles are active
        self.loop = new_loop(choices, max_steps=spec.get("max_steps", 3_000_000))
        self.loop.sched_enabled = bool(cfg.get("sched", True))
        self.loop.stall_rate = cfg.get("stall_rate", 0.0)
        self.loop.stall_max = cfg.get("stall_max", 0.0)
        self.seams = Seams(self.loop, spec["seed_int"]).install()
        self.log = EventLog(self.loop)
        self.violations = []
        self.probes = Counter()
        self.exempt = Counter()
        self.states = set()
        self.transitions = set()
        self._last_state = None
        self.chans = {}
        self.skipped_ops = 0
        self.done_ops = 0
        self.healed = False
        self.frozen = False
        self.stopped = set()
        self.phase = "faults"
        self.wire_bad = 0
        self.suspended_sends = 0

        import aiortc.rtcsctptransport as sctpmod
        from aiortc.rtcdatachannel import RTCDataChannel, RTCDataChannelParameters
        self.sctpmod = sctpmod
        self.RTCDataChannel = RTCDataChannel
        self.RTCDataChannelParameters = RTCDataChannelParameters

        self.ctx = {"A": node_context("A"), "B": node_context("B")}
        self.dtls = {"A": StubDtls(self, "A", "controlling"), "B": StubDtls(self, "B", "controlled")}
        pa, pb = Profile.from_json(cfg["a2b"]), Profile.from_json(cfg["b2a"])
        bo = cfg.get("blackout")
        self.links = {
            "A": Link(self.loop, choices, "net.a2b", self.dtls["B"].on_datagram, self.ctx["B"], pa,
                      blackouts=[(bo[1], bo[2])] if bo and bo[0] == "a2b" else ()),
            "B": Link(self.loop, choices, "net.b2a", self.dtls["A"].on_datagram, self.ctx["A"], pb,
                      blackouts=[(bo[1], bo[2])] if bo and bo[0] == "b2a" else ()),
        }
        self.dtls["A"].link_out = self.links["A"]
        self.dtls["B"].link_out = self.links["B"]
        hc = cfg.get("hold_ctl")
        if hc:
            ln = self.links[hc["dir"]]
            ln.classify = lambda data: CHUNK_NAMES.get(data[12], None) if len(data) >= 16 else None
            ln.hold = {"cls": hc["cls"], "from": hc["from"], "count": hc["count"], "dur": hc["dur"]}
        # sequence-number origins (the random32 seam)
        self.origins = self._origins(cfg)
        for side in "AB":
            self.links[side].tap = self._make_tap(side)
        self.sctp = {}
        for side in "AB":
            vals = deque(self.origins[side])
            real = sctpmod.random32

            def r32(vals=vals, real=real):
                return vals.popleft() if vals else real()

            sctpmod.random32 = r32
            self.sctp[side] = self.ctx[side].run(sctpmod.RTCSctpTransport, self.dtls[side], self.port(side))
            sctpmod.random32 = real
        self._restore = []
        sseq0 = cfg.get("sseq_origin", 0)
        if sseq0:
            # stream sequence numbers start where a long-lived stream would be
            # (the state after sseq0 ordered messages), on both ends alike
            # ... for the stream's FIRST life: after a stream reset both ends restart at 0, as the real code does
            class SeqDict(dict):
                def __init__(self):
                    super().__init__()
                    self.was_reset = set()

                def get(self, key, default=None, _o=sseq0):
                    return dict.get(self, key, (_o if key not in self.was_reset else 0) if default == 0 else default)

                def pop(self, key, *default):
                    self.was_reset.add(key)
                    return dict.pop(self, key, *default)

            class StreamsDict(dict):
                def __init__(self):
                    super().__init__()
                    self.was_reset = set()

                def pop(self, key, *default):
                    self.was_reset.add(key)
                    return dict.pop(self, key, *default)

                def __setitem__(self, key, value):
                    if key in self.was_reset and not len(value.reassembly):
                        value.sequence_number = 0
                    dict.__setitem__(self, key, value)

            base_cls = sctpmod.InboundStream

            class SeededInboundStream(base_cls):
                def __init__(self, _o=sseq0):
                    super().__init__()
                    self.sequence_number = _o

            sctpmod.InboundStream = SeededInboundStream
            self._restore.append(lambda: setattr(sctpmod, "InboundStream", base_cls))
            for side in "AB":
                self.sctp[side]._outbound_stream_seq = SeqDict()
                self.sctp[side]._inbound_streams = StreamsDict()
        self._instrument()

    # -- configuration helpers ------------------------------------------
    def _origins(self, cfg):
        if "origins" in cfg:
            return cfg["origins"]
        mode = cfg.get("origin", "random")
        ch = self.ch
        out = {}
        for side in "AB":
            tag = ch.randint("cfg", 1, 0xFFFFFFFF, 12345)
            if mode == "small":
                tsn = ch.randint("cfg", 0, 1000, 1)
            elif mode == "wrap":
                tsn = 0xFFFFFFFF - ch.randint("cfg", 0, 200, 3)
            else:
                tsn = ch.randint("cfg", 0, 0xFFFFFFFF, 777)
            out[side] = [tag, tsn]
        cfg["origins"] = out
        return out

    # -- instrumentation (observers never raise into the system) ---------
    def _instrument(self):
        for side in "AB":
            sctp = self.sctp[side]
            sctp.on("datachannel", self._on_datachannel(side))
            # C13: bytes handed to the transport, observed at _send()
            orig_send = sctp._send

            async def send_wrap(stream_id, pp_id, user_data, *a, _orig=orig_send, _side=side, **kw):
                try:
                    self._handed(_side, stream_id, pp_id, user_data)
                except Exception as exc:  # noqa
                    self.harness_note(exc)
                return await _orig(stream_id, pp_id, user_data, *a, **kw)

            sctp._send = send_wrap
            # C08: no chunk of a corrupted datagram reaches chunk processing
            orig_rc = sctp._receive_chunk

            async def rc_wrap(chunk, _orig=orig_rc, _side=side):
                if self.dtls[_side].current_corrupted and self.dtls[_side].current_corrupted != "trunc":
                    self.violation("C08", "corrupted-datagram-reached-chunk-processing",
                                   "side=%s chunk=%r" % (_side, chunk))
                return await _orig(chunk)

            sctp._receive_chunk = rc_wrap

    def harness_note(self, exc):
        self.violations.append({"property": "HARNESS", "signature": "harness:" + type(exc).__name__,
                                "detail": repr(exc)})

    def _make_tap(self, side):
        peer = "B" if side == "A" else "A"
        norm = self.cfg.get("normalise")
        o_self, o_peer = self.origins[side][1], self.origins[peer][1]
        sseq0 = self.cfg.get("sseq_origin", 0)

        def tap(event, data, info):
            if event == "send":
                w = wire_summary(data)
                if norm:
                    # sequence fields relative to their origins (C17 differential runs)
                    if w[0] == "DATA":
                        # (a stream that has been reset numbers its next life from 0, whatever the origin was)
                        was_reset = getattr(self.sctp[side]._outbound_stream_seq, "was_reset", ())
                        base = 0 if w[3] in was_reset else sseq0
                        sseq = w[4] if (w[1] & 4) else (w[4] - base) & 0xFFFF   # unordered chunks carry no sequence
                        w = (w[0], w[1], (w[2] - o_self) & 0xFFFFFFFF, w[3], sseq) + w[5:]
                    elif w[0] == "SACK":
                        w = (w[0], (w[1] - o_peer) & 0xFFFFFFFF) + w[2:]
                    elif w[0] == "FORWARD_TSN":
                        w = (w[0], (w[1] - o_self) & 0xFFFFFFFF) + w[2:]
                self.log.add("dg", side, info["act"], w)
        return tap

    def cleanup(self):
        for fn in getattr(self, "_restore", ()):
            fn()

    def on_wire(self, side, data):
        """C08 wire monitor: every packet an endpoint emits parses back to equal
        field values and re-serialises to identical bytes."""
        self.probes["datagrams"] += 1
        if "C08" not in self.props:
            return
        m = self.sctpmod
        try:
            sp, dp, vt, chunks = m.parse_packet(data)
            if len(chunks) != 1:
                raise AssertionError("expected one chunk, got %d" % len(chunks))
            again = m.serialize_packet(sp, dp, vt, chunks[0])
            if again != data:
                raise AssertionError("re-serialisation differs")
            self.probes["wire_roundtrips"] += 1
            self.probes["wire_len_mod4_%d" % (len(data) % 4)] += 1
        except Exception as exc:  # noqa
            self.violation("C08", "emitted-packet-does-not-round-trip:" + type(exc).__name__,
                           "side=%s %s: %r" % (side, wire_summary(data), exc))

    def note_escape(self, side, exc):
        self.log.add("escape", side, exc_tag(exc))
        self.probes["exception_escaped"] += 1
        # the receive path of this endpoint is dead although the association
        # still reports itself connected: nothing can drain (C02), recover
        # (C06) or close (C13) any more.  Other oracles stop here so that the
        # consequences are not reported as separate violations.
        detail = "an exception escaped _handle_data on %s: %r" % (side, exc)
        for prop in ("C02", "C06", "C13"):
            self.violation(prop, "exception-escaped:" + exc_tag(exc), detail)
        for model in self.chans.values():
            model.broken = True
        self.frozen = True

    # -- violations --------------------------------------------------------
    def violation(self, prop, signature, detail):
        self.log.add("violation", prop, signature)
        if len(self.violations) < 20:
            self.violations.append({"property": prop, "signature": signature, "detail": detail,
                                    "t": round(self.loop.time(), 6), "log_at": list(self.log.tail)[-50:]})

    # -- channel observers -------------------------------------------------
    def _attach(self, model, side, chan):
        model.obj[side] = chan
        model.states[side].append(chan.readyState)
        peer = "B" if side == "A" else "A"

        def on_message(msg, model=model, side=side, peer=peer):
            self._on_message(model, side, peer, msg)

        def on_open(model=model, side=side):
            model.opens[side] += 1
            self.log.add("open", model.tag, side)

        def on_close(model=model, side=side):
            model.closes[side] += 1
            self.log.add("close", model.tag, side)

        def on_low(model=model, side=side):
            model.low_events[side] += 1
            if (self.cfg.get("refill_on_low") and model.refills[side] < 3 and self.sendable(model, side)
                    and not model.tag.startswith("r") and self.phase in ("faults", "healed")):
                # the usual refill pattern: the listener sends more, from inside the event
                model.refills[side] += 1
                self.probes["refill_sends_from_low_event"] += 1
                self._op_send(model.tag, side, "bytes", self.cfg["refill_on_low"])

        chan.on("message", on_message)
        chan.on("open", on_open)
        chan.on("close", on_close)
        chan.on("bufferedamountlow", on_low)

    def _on_datachannel(self, side):
        def handler(chan):
            try:
                label = chan.label
                tag = label.split("|", 1)[0]
                model = self.chans.get(tag)
                self.log.add("datachannel", side, chan.id, tag)
                if model is None or model.spec["negotiated"] or model.creator == side:
                    self.violation("C13", "datachannel-event:unknown-channel",
                                   "side=%s id=%r label=%r" % (side, chan.id, label))
                    return
                model.dc_events += 1
                if model.dc_events > 1:
                    self.violation("C13", "datachannel-event:duplicate", "tag=%s" % tag)
                    return
                self._attach(model, side, chan)
                # the event is emitted after the channel became open
                if chan.readyState == "open":
                    model.opens[side] += 1
                creator = model.obj[model.creator]
                want = (creator.id, creator.label, creator.protocol, creator.ordered,
                        creator.maxRetransmits, creator.maxPacketLifeTime)
                got = (chan.id, chan.label, chan.protocol, chan.ordered,
                       chan.maxRetransmits, chan.maxPacketLifeTime)
                if want != got:
                    which = [n for n, a, b in zip(("id", "label", "protocol", "ordered", "maxRetransmits",
                                                   "maxPacketLifeTime"), want, got) if a != b]
                    self.violation("C13", "datachannel-event:mismatch:" + ",".join(which),
                                   "want=%r got=%r" % (want, got))
                if chan.negotiated:
                    self.violation("C13", "datachannel-event:negotiated-flag", "tag=%s" % tag)
            except Exception as exc:  # noqa
                self.harness_note(exc)
        return handler

    def _on_message(self, model, side, peer, msg):
        """`side` received msg; it was sent by `peer` (if anyone)."""
        try:
            self.log.add("msg", model.tag, side, short(msg))
            self.probes["messages_delivered"] += 1
            sent = model.sent[peer]
            got = model.recv[peer]
            prop = "C01" if model.reliable else "C06"
            hdr = payload_header(msg) if len(msg) else None
            if hdr is not None and (hdr[0] != model.tag or hdr[1] != peer):
                self.violation(prop, "message-on-wrong-channel",
                               "arrived on %s/%s from %s: %s" % (model.tag, side, hdr, short(msg)))
                model.broken = True
                return
            if model.ordered and model.reliable:
                i = len(got)
                got.append(msg)
                if i >= len(sent):
                    self.violation(prop, "ordered:more-than-sent", "tag=%s %s" % (model.tag, short(msg)))
                    model.broken = True
                elif sent[i] != msg or type(sent[i]) is not type(msg):
                    if not model.broken:
                        why = ":id-reused-while-the-old-channel's-stream-reset-was-incomplete" \
                            if getattr(model, "reused_early", False) else ""
                        self.violation(prop, "ordered:not-a-prefix:" + self._classify(sent, got, msg) + why,
                                       "tag=%s dir=%s>%s index=%d want=%s got=%s" % (
                                           model.tag, peer, side, i, short(sent[i]), short(msg)))
                    model.broken = True
                else:
                    model.recv_idx[peer].append(i)
                return
            # unordered and/or partially reliable: attribute to one send()
            used = model.recv_idx[peer]
            last = used[-1] if used else -1
            same = [k for k, s in enumerate(sent) if s == msg and type(s) is type(msg)]
            idx = None
            if hdr is not None:
                if hdr[2] in same:
                    idx = hdr[2]
            elif model.ordered:
                # headerless (empty) message on an ordered channel: the delivered
                # sequence must be a subsequence of the sent one; greedy earliest
                # feasible match decides that exactly
                later = [k for k in same if k > last]
                idx = later[0] if later else (same[0] if same else None)
            else:
                free = [k for k in same if k not in used]
                idx = free[0] if free else (same[0] if same else None)
            got.append(msg)
            if idx is None:
                self.violation(prop, "delivered-message-was-never-sent",
                               "tag=%s dir=%s>%s %s" % (model.tag, peer, side, short(msg)))
                model.broken = True
                return
            if idx in used:
                self.violation(prop, "duplicate-delivery", "tag=%s dir=%s>%s idx=%d %s" % (
                    model.tag, peer, side, idx, short(msg)))
                model.broken = True
                return
            if model.ordered and idx < last:
                self.violation(prop, "ordered:out-of-order", "tag=%s dir=%s>%s idx=%d after %d" % (
                    model.tag, peer, side, idx, last))
                model.broken = True
            used.append(idx)
        except Exception as exc:  # noqa
            self.harness_note(exc)

    @staticmethod
    def _classify(sent, got, msg):
        if any(s == msg and type(s) is type(msg) for s in sent[: len(got) - 1]):
            return "duplicate-or-reordered"
        if any(s == msg and type(s) is type(msg) for s in sent[len(got):]):
            return "gap"
        if any(s == msg for s in sent):
            return "wrong-type"
        return "corrupted-or-foreign"

    # -- bufferedAmount model (C13) ------------------------------------------
    @staticmethod
    def _amount(msg):
        n = len(msg.encode("utf8")) if isinstance(msg, str) else len(msg)
        return (n, n) if n else (0, 1)

    def _accept(self, model, side, msg):
        lo, hi = self._amount(msg)
        model.accepted[side].append((lo, hi))
        model.model_amount[side][0] += lo
        model.model_amount[side][1] += hi

    def _handed(self, side, stream_id, pp_id, user_data):
        if pp_id == 50:
            return
        sctp = self.sctp[side]
        chan = sctp._data_channels.get(stream_id)
        for model in self.chans.values():
            if model.obj[side] is chan and chan is not None:
                if not model.accepted[side]:
                    self.violation("C13", "bufferedAmount:handed-more-than-accepted", "tag=%s" % model.tag)
                    return
                lo, hi = model.accepted[side].popleft()
                before_lo, before_hi = model.model_amount[side]
                model.model_amount[side][0] -= lo
                model.model_amount[side][1] -= hi
                thr = model.threshold[side]
                if before_lo != before_hi or lo != hi:
                    # an empty message is accounted as 0 or 1 byte: crossings are not decidable exactly
                    if before_hi > thr and model.model_amount[side][0] <= thr:
                        model.low_ambiguous[side] = True
                        model.low_expected[side] += 1
                elif before_hi > thr and model.model_amount[side][1] <= thr:
                    model.low_expected[side] += 1
                    self.probes["threshold_crossed"] += 1
                    if before_hi - hi == thr:
                        self.probes["threshold_reached_exactly"] += 1
                elif before_hi == thr and hi > 0:
                    self.probes["drained_from_exactly_threshold"] += 1
                return

    def check_buffered(self):
        if "C13" not in self.props:
            return
        for model in self.chans.values():
            for side in "AB":
                chan = model.obj[side]
                if chan is None or model.broken:
                    continue
                amt = chan.bufferedAmount
                lo, hi = model.model_amount[side]
                if self.cfg.get("turn_refresh"):
                    # with sends that suspend inside the transport, "handed to the transport" has no single
                    # instant (the amount is settled when the send returns, possibly after later messages):
                    # only the bounds that do not depend on that instant are checked in this configuration
                    lo, hi = 0, max(hi, 0) + 200000
                if chan.readyState in ("closing", "closed"):
                    # queued data may be discarded when the channel goes away
                    if amt < 0:
                        self.violation("C13", "bufferedAmount:negative", "tag=%s side=%s %d" % (model.tag, side, amt))
                        model.broken = True
                    continue
                if amt < 0:
                    self.violation("C13", "bufferedAmount:negative", "tag=%s side=%s %d" % (model.tag, side, amt))
                    model.broken = True
                elif not (lo <= amt <= hi):
                    self.violation("C13", "bufferedAmount:not-accepted-minus-handed",
                                   "tag=%s side=%s actual=%d model=[%d,%d]" % (model.tag, side, amt, lo, hi))
                    model.broken = True

    def check_low_events(self, final=False):
        """`bufferedamountlow` fires iff a decrease crosses the threshold from above:
        never more events than crossings at any instant; exactly as many once quiescent."""
        if "C13" not in self.props or self.cfg.get("turn_refresh"):
            return
        for model in self.chans.values():
            for side in "AB":
                if model.obj[side] is None or model.broken:
                    continue
                ev, ex = model.low_events[side], model.low_expected[side]
                if ev > ex:
                    self.violation("C13", "bufferedamountlow:fired-without-crossing-the-threshold",
                                   "tag=%s side=%s events=%d crossings=%d threshold=%d" % (
                                       model.tag, side, ev, ex, model.threshold[side]))
                    model.broken = True
                elif final and ev < ex and not model.low_ambiguous[side] and model.obj[side].readyState == "open":
                    self.violation("C13", "bufferedamountlow:not-fired-on-crossing",
                                   "tag=%s side=%s events=%d crossings=%d threshold=%d" % (
                                       model.tag, side, ev, ex, model.threshold[side]))
                    model.broken = True

    # -- readyState tracking (C13) -----------------------------------------
    ORDER = {"connecting": 0, "open": 1, "closing": 2, "closed": 3}

    def check_states(self):
        for model in self.chans.values():
            for side in "AB":
                chan = model.obj[side]
                if chan is None:
                    continue
                st = chan.readyState
                seq = model.states[side]
                if seq[-1] != st:
                    self.log.add("state", model.tag, side, st)
                    if "C13" in self.props and self.ORDER.get(st, -1) < self.ORDER.get(seq[-1], -1):
                        self.violation("C13", "readyState:moved-backwards:%s>%s" % (seq[-1], st),
                                       "tag=%s side=%s" % (model.tag, side))
                    seq.append(st)
                    if st == "closed" and chan.id is not None:
                        # (diagnosis only) this end held the id until now: a channel of the other side's making that
                        # already took the same id, and is not announced here yet, met the old channel on arrival
                        for m2 in self.chans.values():
                            o2 = m2.obj[m2.creator]
                            if (m2 is not model and m2.creator != side and not m2.spec["negotiated"] and o2 is not None
                                    and o2.id == chan.id and m2.dc_events == 0
                                    and o2.readyState in ("connecting", "open")):
                                m2.met_old_life = True
                    if ("C13" in self.props and st in ("closing", "closed") and model.close_called is None
                            and self.sctp[side].state == "connected" and not model.broken
                            and not self.stopped and self.phase != "teardown"):
                        earlier = [m.tag for m in self.chans.values() if m is not model and m.close_called is not None
                                   and any(m.obj[x] is not None and m.obj[x].id == chan.id for x in "AB")]
                        why = "id-reused-before-peer-half-of-reset-arrived" if earlier else "unexplained"
                        self.violation("C13", "channel-closed-although-nobody-closed-it:" + why,
                                       "tag=%s side=%s state=%s id=%r earlier channels on this id: %r" % (
                                           model.tag, side, st, chan.id, earlier))
                        model.broken = True
                if "C13" in self.props and (model.opens[side] > 1 or model.closes[side] > 1) and not model.broken:
                    self.violation("C13", "event:%s-fired-twice" % ("open" if model.opens[side] > 1 else "close"),
                                   "tag=%s side=%s" % (model.tag, side))
                    model.broken = True

    # -- abstract state sampling (coverage measure) -----------------------------
    def sample_state(self):
        parts = []
        for side in "AB":
            s = self.sctp[side]
            try:
                parts.append("%s:%d%d%d%d%d%d" % (
                    s._association_state.name[:4],
                    min(len(s._sent_queue), 3), min(len(s._outbound_queue), 3),
                    1 if s._t3_handle is not None else 0,
                    1 if s._fast_recovery_exit is not None else 0,
                    1 if s._sack_misordered else 0,
                    1 if s._forward_tsn_chunk is not None or s._reconfig_request is not None else 0))
            except AttributeError:
                parts.append("?")
        st = "|".join(parts)
        if st != self._last_state:
            if len(self.states) < 3000:
                self.states.add(st)
                if self._last_state is not None:
                    self.transitions.add(self._last_state + ">" + st)
            self._last_state = st

    def step_hook(self):
        if self.frozen:
            return
        try:
            self.check_buffered()
            self.check_low_events()
            self.check_states()
            self.sample_state()
        except Exception as exc:  # noqa
            self.harness_note(exc)

    # -- operations ------------------------------------------------------------
    def apply(self, op):
        kind = op["op"]
        side = op.get("side")
        self.log.add("op", kind, side, op.get("tag"))
        if kind == "create":
            self._op_create(op)
        elif kind == "create_peer":
            self._op_create_peer(op)
        elif kind == "send":
            self._op_send(op["tag"], side, op["kind"], op["size"])
        elif kind == "burst":
            for _ in range(op["count"]):
                self._op_send(op["tag"], side, op["kind"], op["size"])
        elif kind == "close":
            self._op_close(op["tag"], side)
        elif kind == "stop":
            self.stopped.add(side)
            self.loop.create_task(self.sctp[side].stop(), context=self.ctx[side])
            self.exempt["stop_op"] += 1
        elif kind == "reuse":
            self._op_reuse(op)
        elif kind == "threshold":
            self._op_threshold(op["tag"], side, op["value"])

    def _params(self, spec):
        return self.RTCDataChannelParameters(
            label=spec["tag"] + "|" + spec["label"], protocol=spec["protocol"], ordered=spec["ordered"],
            maxRetransmits=spec["maxRetransmits"], maxPacketLifeTime=spec["maxPacketLifeTime"],
            negotiated=spec["negotiated"], id=spec["id"])

    def _op_create(self, op):
        spec = {k: op[k] for k in ("tag", "side", "ordered", "maxRetransmits", "maxPacketLifeTime",
                                   "negotiated", "id", "label", "protocol")}
        if spec["tag"] in self.chans:
            self.skipped_ops += 1
            return
        side = spec["side"]
        if self.sctp[side].state == "closed":
            self.skipped_ops += 1
            return
        model = ChanModel(spec)
        self.chans[spec["tag"]] = model
        try:
            chan = self.ctx[side].run(self.RTCDataChannel, self.sctp[side], self._params(spec))
        except Exception as exc:  # noqa
            self.violation("C13", "create-raised:" + exc_tag(exc), repr(exc))
            del self.chans[spec["tag"]]
            return
        self._attach(model, side, chan)
        self.done_ops += 1

    def _op_create_peer(self, op):
        model = self.chans.get(op["tag"])
        side = op["side"]
        if model is None or model.obj[side] is not None or self.sctp[side].state == "closed":
            self.skipped_ops += 1
            return
        if model.close_called is not None:
            # the two applications agreed on this channel out of band; the one
            # that has not created its end yet does not do so after the other
            # has already closed the channel
            self.skipped_ops += 1
            self.exempt["negotiated_peer_not_created_after_close"] += 1
            return
        try:
            chan = self.ctx[side].run(self.RTCDataChannel, self.sctp[side], self._params(model.spec))
        except Exception as exc:  # noqa
            self.violation("C13", "create-raised:" + exc_tag(exc), repr(exc))
            return
        self._attach(model, side, chan)
        self.done_ops += 1

    def _op_reuse(self, op):
        old = self.chans.get(op["tag"])
        if (old is None or op["newtag"] in self.chans or not self.connected()
                or not all(old.obj[s] is not None and old.obj[s].readyState == "closed" for s in "AB")):
            self.skipped_ops += 1
            return
        cid = old.obj[old.creator].id
        if cid is None or self.id_in_use(cid, but=old):
            self.skipped_ops += 1
            return
        spec = dict(old.spec, tag=op["newtag"], negotiated=True, id=cid, label="reuse", protocol="",
                    maxRetransmits=None, maxPacketLifeTime=None, ordered=True, side=op["side"])
        # both ends report the old channel closed; is the stream reset behind it complete too?  (diagnosis only:
        # an endpoint whose own reset of the stream is still queued or unanswered - known finding F20's family)
        early = False
        for s in "AB":
            t = self.sctp[s]
            req = getattr(t, "_reconfig_request", None)
            if cid in getattr(t, "_reconfig_queue", ()) or (req is not None and cid in getattr(req, "streams", ())):
                early = True
        self._op_create(dict(spec, op="create"))
        self._op_create_peer({"tag": op["newtag"], "side": "B" if op["side"] == "A" else "A"})
        if op["newtag"] in self.chans:
            self.chans[op["newtag"]].reused_early = early
        self.probes["id_reused_during_faults"] += 1
        if early:
            self.probes["id_reused_while_reset_incomplete"] += 1

    def id_in_use(self, cid, but=None):
        """Some other channel (either end) currently holds this id and is not closed: an application
        would not hand the id to a new negotiated channel."""
        for m in self.chans.values():
            if m is but:
                continue
            for s in "AB":
                o = m.obj[s]
                if o is not None and o.id == cid and o.readyState != "closed":
                    return True
        return False

    def sendable(self, model, side):
        chan = model.obj[side]
        if chan is None or chan.readyState != "open":
            return False
        if model.spec["negotiated"]:
            peer = "B" if side == "A" else "A"
            if model.obj[peer] is None:
                return False  # the other end does not exist yet: the app must wait
        if model.close_called is not None:
            return False
        return True

    def _op_send(self, tag, side, kind, size):
        model = self.chans.get(tag)
        if model is None or not self.sendable(model, side):
            self.skipped_ops += 1
            return False
        k = model.counter[side]
        msg = make_payload(tag, side, k, kind, size)
        chan = model.obj[side]
        try:
            from ..loop import NODE
            if NODE.get() == side:
                chan.send(msg)              # called from within this endpoint's own context (an event listener)
            else:
                self.ctx[side].run(chan.send, msg)
        except Exception as exc:  # noqa
            self.violation("C13", "send-raised-on-open-channel:" + exc_tag(exc), repr(exc))
            return False
        model.counter[side] += 1
        model.sent[side].append(msg)
        self._accept(model, side, msg)
        self.done_ops += 1
        self.probes["messages_sent"] += 1
        if size > 1200:
            self.probes["fragmented_messages"] += 1
        if size == 0:
            self.probes["empty_messages"] += 1
        return True

    def _op_close(self, tag, side):
        model = self.chans.get(tag)
        if model is None or model.obj[side] is None:
            self.skipped_ops += 1
            return
        chan = model.obj[side]
        if model.close_called is None:
            model.close_called = self.loop.time()
            model.closer = side
            model.close_state = chan.readyState
            model.close_id = chan.id
            model.close_assoc = self.sctp[side].state
        self.probes["close_in_state_" + chan.readyState] += 1
        if chan.id is None:
            self.probes["close_before_id_assigned"] += 1
        try:
            self.ctx[side].run(chan.close)
        except Exception as exc:  # noqa
            self.violation("C13", "close-raised:" + exc_tag(exc), repr(exc))
        self.done_ops += 1

    def _op_threshold(self, tag, side, value):
        model = self.chans.get(tag)
        if model is None or model.obj[side] is None:
            return
        if model.obj[side].bufferedAmount > 0:
            self.probes["threshold_moved_while_buffered"] += 1
        self.ctx[side].run(setattr, model.obj[side], "bufferedAmountLowThreshold", value)
        model.threshold[side] = value

    # -- quiescence / liveness ------------------------------------------------------
    def connected(self):
        return all(self.sctp[s].state == "connected" for s in "AB")

    def reliable_backlog(self):
        """(undelivered message count, description) over reliable channels."""
        missing = 0
        desc = []
        for model in self.chans.values():
            if not model.reliable or model.broken or model.exempt:
                continue
            for sender in "AB":
                if model.close_called is not None and (sender != getattr(model, "closer", None)
                                                       or getattr(model, "close_assoc", None) != "connected"):
                    # what the other side still had on its way when this channel was closed under it may be lost;
                    # a close() before the association is up drops the closer's queued messages too (the known
                    # C13 finding F13/F16, judged there)
                    continue
                n_sent, n_recv = len(model.sent[sender]), len(model.recv[sender])
                if n_recv < n_sent:
                    missing += n_sent - n_recv
                    desc.append("%s:%s %d/%d" % (model.tag, sender, n_recv, n_sent))
        return missing, desc

    def queues(self):
        out = {}
        for side in "AB":
            s = self.sctp[side]
            out[side] = tuple(len(getattr(s, n, ())) for n in ("_sent_queue", "_outbound_queue", "_data_channel_queue"))
        return out

    def buffered(self):
        out = []
        for model in self.chans.values():
            for side in "AB":
                chan = model.obj[side]
                if chan is not None and chan.readyState == "open" and chan.bufferedAmount != 0:
                    out.append("%s/%s=%d" % (model.tag, side, chan.bufferedAmount))
        return out

    def quiescent(self):
        missing, _ = self.reliable_backlog()
        if missing:
            return False
        if any(any(q) for q in self.queues().values()):
            return False
        return not self.buffered()

    def port(self, side):
        return (self.cfg.get("ports") or [5000, 5000])[0 if side == "A" else 1]

    def failed_task(self):
        """Tag of the first aiortc task that ended with an exception other than a connection error (diagnosis only)."""
        for f in self.loop.task_failures:
            if "aiortc" in f["where"] and not isinstance(f["exc"], ConnectionError):
                return "task-ended-with:" + exc_tag(f["exc"])
        return None

    def diagnose_stall(self):
        """Cause tag for a C02 stall, from the anchors (diagnosis only)."""
        for side in "AB":
            if self.dtls[side].escaped:
                return "exception-escaped:" + exc_tag(self.dtls[side].escaped[0])
        for u in self.loop.unhandled:
            if u.get("exc") is not None:
                return "unhandled-exception-in-callback:" + exc_tag(u["exc"])
        t = self.failed_task()
        if t:
            return t
        try:
            for side in "AB":
                peer = "B" if side == "A" else "A"
                s, r = self.sctp[side], self.sctp[peer]
                pending_reasm = sum(len(st.reassembly) for st in r._inbound_streams.values())
                if not s._sent_queue and not s._outbound_queue and pending_reasm:
                    return "deliverable-message-left-in-reassembly"
                if s._outbound_queue and not s._sent_queue and s._flight_size >= s._cwnd:
                    return "flight-size-exceeds-window-with-empty-sent-queue"
                if s._outbound_queue and s._sent_queue and s._flight_size >= s._cwnd and s._t3_handle is None:
                    return "window-full-and-no-T3"
                if s._sent_queue and s._t3_handle is None:
                    return "outstanding-data-without-T3"
                if s._sent_queue and r._sack_misordered:
                    return "cumulative-tsn-stuck"
                if s._data_channel_queue and not s._outbound_queue:
                    return "channel-queue-not-flushed"
        except AttributeError:
            pass
        return "unclassified"

    async def wait_until(self, pred, bound, progress=None):
        t_end = self.loop.time() + bound
        while self.loop.time() < t_end:
            if pred():
                return True
            if self.dtls["A"].escaped or self.dtls["B"].escaped:
                return pred()  # the receive path is dead: waiting longer changes nothing
            await asyncio.sleep(POLL)
        return pred()

    # -- the driver -----------------------------------------------------------------
    async def main(self):
        loop = self.loop
        caps = self.sctpmod.RTCSctpCapabilities(maxMessageSize=65536)
        self.tasks = []
        for side in "AB":
            self.tasks.append(loop.create_task(self.dtls[side].pump(), context=self.ctx[side]))
        skew = self.cfg.get("start_skew", 0.0)
        first = "B" if self.cfg.get("start_first", "B") == "B" else "A"
        second = "A" if first == "B" else "B"
        self.tasks.append(loop.create_task(self.sctp[first].start(caps, self.port(second)), context=self.ctx[first]))

        async def late_start():
            if skew:
                await asyncio.sleep(skew)
            if second not in self.stopped:  # an application does not start a stopped transport
                await self.sctp[second].start(caps, self.port(first))

        self.tasks.append(loop.create_task(late_start(), context=self.ctx[second]))
        loop.step_hook = self.step_hook

        for op in self.ops:
            if op.get("t"):
                await asyncio.sleep(op["t"])
            self.apply(op)
        if self.cfg.get("heal_delay"):
            await asyncio.sleep(self.cfg["heal_delay"])

        # ---- heal: from now on every datagram is delivered once, in order
        for side in "AB":
            self.links[side].heal_at = loop.time()
        self.healed = True
        self.phase = "healed"
        self.log.add("heal")
        await self.liveness()

    async def liveness(self):
        loop = self.loop
        if self.frozen:
            return
        # give a still-connecting association the chance to establish or fail
        await self.wait_until(lambda: all(self.sctp[s].state != "connecting" for s in "AB"), 400.0)
        if not self.connected():
            self.exempt["association_not_connected"] += 1
            self.log.add("exempt", "not-connected", tuple(self.sctp[s].state for s in "AB"))
            await self.lifecycle()
            return
        outstanding = sum(sum(q) for q in self.queues().values())
        bound = B_LIVENESS + 1.0 * outstanding
        ok = await self.wait_until(self.quiescent, bound)
        self.check_liveness_result(ok, "drain")
        if ok and self.connected():
            self.probes["drained_after_heal"] += 1
            self.check_low_events(final=True)
            await self.probe_burst()
        await self.lifecycle()

    def check_liveness_result(self, ok, what):
        if ok or not self.connected():
            if not ok:
                self.exempt["association_closed_during_drain"] += 1
            return
        if self.frozen:
            return
        missing, desc = self.reliable_backlog()
        if missing:
            self.violation("C02", "%s:undelivered:%s" % (what, self.diagnose_stall()),
                           "missing=%d %s queues=%r" % (missing, desc[:6], self.queues()))
        elif any(any(q) for q in self.queues().values()):
            self.violation("C02", "%s:not-quiescent:queues:%s" % (what, self.diagnose_stall()), repr(self.queues()))
        else:
            t = self.failed_task()
            self.violation("C02", "%s:not-quiescent:bufferedAmount%s" % (what, ":" + t if t else ""), repr(self.buffered()))

    async def probe_burst(self):
        """After quiescence a fresh burst larger than the congestion window must
        still be delivered (exposes a wedged window without asserting on it);
        one fresh message per partially reliable channel must arrive too (C06)."""
        sent_any = False
        pr_probes = []

        def timers_idle():
            # nothing at all outstanding: no retransmission timer armed (e.g. for a FORWARD-TSN that is
            # still being repeated).  A T3 armed earlier would, when it fires, legitimately abandon a
            # fresh message whose lifetime is a few milliseconds.
            try:
                return all(self.sctp[s]._t3_handle is None and self.sctp[s]._forward_tsn_chunk is None for s in "AB")
            except AttributeError:
                return True

        pr_ok = await self.wait_until(timers_idle, 200.0)
        if not pr_ok:
            self.exempt["pr_probe_skipped_timers_not_idle"] += 1
        for model in self.chans.values():
            if model.broken or model.exempt:
                continue
            if not model.reliable and not pr_ok:
                continue
            for side in "AB":
                if not self.sendable(model, side):
                    continue
                try:
                    cwnd = self.sctp[side]._cwnd
                except AttributeError:
                    cwnd = 4800
                n = max(4, min(40, (4 * cwnd) // 1200 // max(1, len(self.chans))))
                if not model.reliable:
                    n = 1
                for _ in range(n):
                    if self._op_send(model.tag, side, "bytes", 1200):
                        sent_any = True
                        if not model.reliable:
                            pr_probes.append((model, side, len(model.sent[side]) - 1))
        if not sent_any:
            return
        self.phase = "probe"
        self.log.add("probe", len(pr_probes))

        def pr_missing():
            return [(m.tag, s) for m, s, k in pr_probes if k not in m.recv_idx[s] and not m.broken]

        await self.wait_until(lambda: self.quiescent() and not pr_missing(), B_LIVENESS + 200)
        if not self.connected():
            self.exempt["association_closed_during_probe"] += 1
            return
        if not self.quiescent():
            self.check_liveness_result(False, "probe")
        elif pr_missing():
            self.violation("C06", "fresh-message-after-recovery-not-delivered",
                           "sent after quiescence on a healed network, never delivered: %r" % (pr_missing(),))
        else:
            self.probes["probe_delivered"] += 1

    # -- C13 lifecycle tail ------------------------------------------------------------
    async def lifecycle(self):
        if "C13" not in self.props or not self.connected():
            return
        if self.dtls["A"].escaped or self.dtls["B"].escaped:
            return
        loop = self.loop
        # 1. every channel on which close() was called must close on both ends
        def closed_both(model):
            return all(model.obj[s] is None or model.obj[s].readyState == "closed" for s in "AB")

        def pending_close():
            return [m for m in self.chans.values() if m.close_called is not None and not closed_both(m) and not m.broken
                    and not m.exempt]

        # 0. channels opened in-band: the ids the two sides chose by themselves differ, and each such channel that is
        #    still in use was announced to the other side (exactly once: duplicates are flagged when they happen)
        inband = [m for m in self.chans.values() if not m.spec["negotiated"] and m.spec["id"] is None and not m.broken
                  and not m.exempt and m.close_called is None and m.obj[m.creator] is not None
                  and m.obj[m.creator].readyState in ("connecting", "open")]
        await self.wait_until(lambda: all(m.dc_events >= 1 and m.obj[m.creator].readyState != "connecting" for m in inband),
                              B_LIVENESS)
        if not self.connected():
            self.exempt["association_closed_during_lifecycle"] += 1
            return
        ids = {}
        for m in inband:
            o = m.obj[m.creator]
            if o.readyState == "closed" or m.close_called is not None:
                continue
            if o.id is not None and o.id in ids and ids[o.id].creator != m.creator:
                self.violation("C13", "automatically-chosen-ids-collide",
                               "tags %s (side %s) and %s (side %s) both hold id %d" % (ids[o.id].tag, ids[o.id].creator,
                                                                                      m.tag, m.creator, o.id))
                m.broken = ids[o.id].broken = True
                continue
            ids[o.id] = m
            if m.dc_events == 0 or o.readyState == "connecting":
                self.violation("C13", "datachannel-event:never-announced" + (
                                   ":id-taken-again-while-the-peer-still-held-the-old-channel"
                                   if getattr(m, "met_old_life", False) else ""),
                               "tag=%s creator=%s id=%r state=%s events on the other side: %d" % (
                                   m.tag, m.creator, o.id, o.readyState, m.dc_events))
                m.broken = True
            else:
                self.probes["inband_channel_announced"] += 1
        # close the remaining channels too, from a drawn side
        for model in list(self.chans.values()):
            if model.close_called is None and not model.broken:
                sides = [s for s in "AB" if model.obj[s] is not None]
                if sides:
                    self._op_close(model.tag, sides[len(model.tag) % len(sides)])
        await self.wait_until(lambda: not pending_close(), B_LIVENESS)
        if not self.connected():
            self.exempt["association_closed_during_lifecycle"] += 1
            return
        for model in pending_close():
            st = tuple(model.obj[s].readyState if model.obj[s] is not None else None for s in "AB")
            self.violation("C13", "close:not-closed-on-both-ends:%s" % self.diagnose_close(model),
                           "tag=%s states=%r close() called at t=%.3f in state %s id=%r" % (
                               model.tag, st, model.close_called, model.close_state, model.close_id))
            model.broken = True
        # 2. a freed id can be reused by a new channel that works
        reusable = [m for m in self.chans.values() if closed_both(m) and not m.broken
                    and m.obj[m.creator] is not None and m.obj[m.creator].id is not None
                    and not self.id_in_use(m.obj[m.creator].id, but=m)]
        if reusable:
            old = reusable[0]
            cid = old.obj[old.creator].id
            spec = dict(old.spec, tag="r0", negotiated=True, id=cid, label="reuse", protocol="",
                        maxRetransmits=None, maxPacketLifeTime=None, ordered=True)
            self.apply(dict(spec, op="create", t=0))
            self.apply({"op": "create_peer", "tag": "r0", "side": "B" if spec["side"] == "A" else "A"})
            m = self.chans.get("r0")
            if m is not None and not m.broken and all(m.obj[s] is not None for s in "AB"):
                await self.wait_until(lambda: all(m.obj[s].readyState == "open" for s in "AB"), 60.0)
                ok = all(self._op_send("r0", s, "str", 10) for s in "AB")
                if ok:
                    await self.wait_until(lambda: all(len(m.recv[s]) == 1 for s in "AB"), B_LIVENESS)
                if not ok or not all(len(m.recv[s]) == 1 for s in "AB"):
                    if self.connected():
                        self.violation("C13", "close:freed-id-not-reusable",
                                       "id=%r states=%r recv=%r" % (cid, [m.obj[s].readyState for s in "AB"],
                                                                    [len(m.recv[s]) for s in "AB"]))
                else:
                    self.probes["id_reused"] += 1
        # 3. when the association ends every channel closes
        side = "A" if len(self.chans) % 2 else "B"
        self.phase = "teardown"
        self.log.add("op", "stop-final", side)
        await self.ctx_await(side, self.sctp[side].stop())
        await self.wait_until(lambda: all(self.sctp[s].state == "closed" for s in "AB"), 120.0)
        for model in self.chans.values():
            for s in "AB":
                chan = model.obj[s]
                if chan is not None and chan.readyState != "closed" and self.sctp[s].state == "closed":
                    self.violation("C13", "association-ended:channel-not-closed",
                                   "tag=%s side=%s state=%s" % (model.tag, s, chan.readyState))
                    break
        self.check_states()

    def diagnose_close(self, model):
        if getattr(model, "close_assoc", "") != "connected":
            # close() was called while the closing side's association was not
            # (yet) established: aiortc then closes the local end only
            return "closed-before-association-established"
        try:
            for side in "AB":
                s = self.sctp[side]
                if model.close_id is None:
                    return "closed-before-id-assigned"
                if s._reconfig_request is not None:
                    return "reconfig-request-unanswered"
                if s._reconfig_queue:
                    return "reconfig-queue-not-transmitted"
        except AttributeError:
            pass
        return "unclassified"

    async def ctx_await(self, side, coro):
        task = self.loop.create_task(coro, context=self.ctx[side])
        return await task


# ---------------------------------------------------------------------------
# entry point for one run
# ---------------------------------------------------------------------------
PROFILE_PROPS = {
    "c01": {"C01", "C02", "C06", "C08", "C13"},
}
ALL_PROPS = {"C01", "C02", "C06", "C08", "C13"}


def build(spec):
    """-> (choices, cfg, ops)"""
    from ..choices import derive_seed
    replay = spec.get("replay")
    if replay is not None:
        ch = Choices(seed=None, trace=replay["streams"])
        return ch, replay["config"], replay["ops"]
    seed_int = derive_seed(spec["seed"], spec["property"], spec["run"])
    ch = Choices(seed=seed_int)
    cfg, ops = generate(ch, spec.get("profile", "c01"))
    return ch, cfg, ops


def execute(spec, ch, cfg, ops, keep_log=False):
    """Run one world to completion; -> (world, harness error or None)."""
    world = World(spec, ch, cfg, ops, ALL_PROPS)
    world.log.keep_all = keep_log
    harness = None
    try:
        try:
            world.loop.run_until_complete(world.main())
        except (SimDeadlock, SimBudgetExceeded) as exc:
            harness = "%s: %s" % (type(exc).__name__, exc)
        except RunTimeout as exc:
            where = hang_frame(world.loop, exc)
            if where is None:
                raise
            world.probes["hang_detected"] += 1
            world.violation(spec["property"], "hang:event-loop-frozen-by-busy-loop@" + where,
                            "a callback spun for more than 10 s of wall time; innermost aiortc frame: " + where)
    finally:
        try:
            world.cleanup()
        finally:
            teardown_loop(world.loop)
    return world, harness


def run(spec):
    from ..choices import derive_seed
    spec = dict(spec)
    spec["seed_int"] = derive_seed(spec.get("seed", 0), spec["property"], spec.get("run", 0)) & 0xFFFFFFFF
    ch, cfg, ops = build(spec)
    if spec.get("cfg_override"):
        cfg = dict(cfg, **spec["cfg_override"])
    world, harness = execute(spec, ch, cfg, ops)
    return finish(world, spec, ch, cfg, ops, harness)


def finish(world, spec, ch, cfg, ops, harness):
    faults = Counter()
    for side in "AB":
        for k, v in world.links[side].stats.items():
            if k not in ("sent", "delivered"):
                faults[k] += v
    faults["node_stall"] = world.loop.stalls
    faults["node_switch"] = world.loop.node_switches
    prop = spec["property"]
    mine = [v for v in world.violations if v["property"] == prop]
    if prop == "C06" and any(not m.reliable for m in world.chans.values()):
        # "abandoning messages never ... blocks messages on any other channel"
        for v in world.violations:
            if v["property"] == "C02" and not v["signature"].startswith("exception-escaped"):
                mine.append(dict(v, property="C06", signature="other-channels-blocked:" + v["signature"]))
    known = set(spec.get("known_signatures") or ())
    mine.sort(key=lambda v: v["signature"] in known)
    hv = [v for v in world.violations if v["property"] == "HARNESS"]
    res = {
        "verdict": "ok",
        "digest": world.log.digest(),
        "faults": dict(faults),
        "probes": dict(world.probes),
        "exempt": dict(world.exempt),
        "sim_seconds": round(world.loop.time(), 3),
        "steps": world.loop.steps,
        "states": sorted(world.states),
        "transitions": sorted(world.transitions),
        "nontrivial": bool(world.probes.get("messages_delivered", 0) > 0
                           and (sum(v for k, v in faults.items() if k not in ("node_switch",)) > 0)),
        "config_class": ("fault_free" if cfg.get("fault_free") else "faulty") + ("+turn-refresh" if cfg.get("turn_refresh") else ""),
        "other_violations": [v["property"] + ":" + v["signature"] for v in world.violations
                             if v["property"] not in (prop, "HARNESS")][:5],
    }
    res["sample"] = {
        "seed": spec.get("seed"), "run": spec.get("run"), "config": cfg,
        "ops_head": ops[:6], "n_ops": len(ops), "faults": dict(faults), "digest": res["digest"],
        "messages_sent": world.probes.get("messages_sent", 0),
        "messages_delivered": world.probes.get("messages_delivered", 0), "verdict": "ok",
    }
    if harness or hv:
        res["verdict"] = "harness_error"
        res["detail"] = harness or repr(hv[0])
        return res
    if mine:
        v = mine[0]
        res["verdict"] = "violation"
        res["signature"] = v["signature"]
        res["detail"] = v["detail"]
        res["all_violations"] = [x["signature"] for x in mine]
        res["sample"]["verdict"] = "violation:" + v["signature"]
        res["replay"] = {
            "property": prop, "engine": "sctp_sim", "profile": spec.get("profile"),
            "seed": spec.get("seed"), "run": spec.get("run"),
            "config": cfg, "ops": ops, "streams": {k: list(v) for k, v in ch.trace().items()},
            "expect": {"signature": v["signature"], "digest": res["digest"]},
            "detail": v["detail"], "t": v.get("t"),
            "log_tail": v.get("log_at") or list(world.log.tail)[-60:],
        }
    return res


def run_c08(spec):
    """C08: mostly sctp_sim runs (corruption in transit + wire monitor on everything the endpoints emit); every
    fourth run is a hostile_sim session whose forging actor also submits well-formed packets of every chunk type
    (parameter lists with empty values in every position, all padding cases) to the same round-trip monitor."""
    if spec.get("replay") is not None:
        mix = spec["replay"].get("engine") == "hostile_sim"
    else:
        mix = spec.get("run", 0) % 4 == 3
    if mix:
        from . import hostile_sim
        return hostile_sim.run(spec)
    return run(spec)
