"""hostile_sim (C05): a victim endpoint with the full real receive path (real
RTCDtlsTransport with its receive loop, real RTCSctpTransport with open data
channels, a real video RTCRtpReceiver and an RTCRtpSender that receives
feedback) and a peer that is the real stack plus a *forging actor*.  Forged
datagrams are built at byte level by this module (never with aiortc's
serialisers) and sent through the peer's real DTLS / SRTP so that they reach
the victim's parsers authenticated, or injected raw at ICE level; they arrive
in every protocol state the generated program passes through.
"""

import asyncio
import struct
import sys

from ..seams import setup_import_path

setup_import_path()
import aiortc.rtcdtlstransport as dtlsmod  # noqa: E402
import aiortc.rtcrtpreceiver as rxmod  # noqa: E402
import aiortc.rtcrtpsender as txmod  # noqa: E402
import aiortc.rtcsctptransport as sctpmod  # noqa: E402
from aiortc.rtcdatachannel import RTCDataChannel, RTCDataChannelParameters  # noqa: E402
from aiortc.rtcrtpparameters import (RTCRtcpParameters, RTCRtpCodecParameters, RTCRtpDecodingParameters,  # noqa: E402
                                     RTCRtpEncodingParameters, RTCRtpHeaderExtensionParameters,
                                     RTCRtpReceiveParameters, RTCRtpRtxParameters, RTCRtpSendParameters)

from .. import fakes  # noqa: E402
from ..net import Profile, random_profile  # noqa: E402
from .common import exc_tag, run_world  # noqa: E402
from .history_sim import _FakeThreading  # noqa: E402
from .media_sim import ABS_SEND_TIME, MID_URI, MediaBase, SimPacketTrack, TransportPair  # noqa: E402

# -- CRC32c (Castagnoli), table driven, independent of aiortc's dependency ---------------------
_CRC_TABLE = []
for _i in range(256):
    _c = _i
    for _ in range(8):
        _c = (_c >> 1) ^ 0x82F63B78 if _c & 1 else _c >> 1
    _CRC_TABLE.append(_c)


def crc32c(data):
    c = 0xFFFFFFFF
    for b in data:
        c = _CRC_TABLE[(c ^ b) & 0xFF] ^ (c >> 8)
    return c ^ 0xFFFFFFFF


def pad4(b):
    return b + b"\x00" * (-len(b) % 4)


def chunk(ctype, flags, body, length=None):
    return pad4(struct.pack("!BBH", ctype, flags, len(body) + 4 if length is None else length) + body)


def sctp_packet(vtag, chunks, bad_crc=False, sport=5000, dport=5000):
    head = struct.pack("!HHL", sport, dport, vtag)
    body = b"".join(chunks)
    c = crc32c(head + b"\x00\x00\x00\x00" + body)
    if bad_crc:
        c ^= 0x5A5A
    return head + struct.pack("<L", c) + body


def _sctp_packet_at(vtag, chunks, ports):
    return sctp_packet(vtag, chunks, sport=ports[0], dport=ports[1])


def param(ptype, value, length=None):
    return pad4(struct.pack("!HH", ptype, len(value) + 4 if length is None else length) + value)


def canon_params(params):
    """Parameters in canonical wire form: padded between each other, the last one unpadded (the chunk is padded)."""
    out = b""
    for i, (t, v) in enumerate(params):
        p = struct.pack("!HH", t, len(v) + 4) + v
        out += p if i == len(params) - 1 else pad4(p)
    return out


def wellformed_sctp(r, vt, ports=(5000, 5000)):
    """A canonical, well-formed single-chunk SCTP packet of a seeded type with seeded field values:
    what any conforming peer may send (C08 wire monitor: it must parse and re-serialise to the same bytes)."""
    rb = lambda n: bytes(r.randrange(256) for _ in range(n))   # noqa: E731

    def sctp_packet(vtag, chunks):      # every packet of this call carries `ports`
        return _sctp_packet_at(vtag, chunks, ports)

    def params():
        n = r.choice([0, 1, 1, 2, 3, 4])
        return [(r.choice([1, 7, 9, 11, 12, 0x8008, 0xC000, 0x8002, 0x8004]), rb(r.choice([0, 0, 1, 2, 3, 4, 5, 8, 9])))
                for _ in range(n)]
    kind = r.choice(["init", "init-ack", "heartbeat", "heartbeat-ack", "abort", "error", "reconfig", "data", "sack",
                     "forward-tsn", "cookie-echo", "cookie-ack", "shutdown", "shutdown-ack", "shutdown-complete"])
    fl = r.choice([0, 0, 1, 3, 7, 255])
    if kind in ("init", "init-ack"):
        body = struct.pack("!LLHHL", r.getrandbits(32), r.getrandbits(32), r.randrange(65536), r.randrange(65536), r.getrandbits(32))
        return sctp_packet(0 if kind == "init" else vt, [chunk(1 if kind == "init" else 2, fl, body + canon_params(params()))])
    if kind in ("heartbeat", "heartbeat-ack", "abort", "error", "reconfig"):
        ct = {"heartbeat": 4, "heartbeat-ack": 5, "abort": 6, "error": 9, "reconfig": 130}[kind]
        return sctp_packet(vt, [chunk(ct, fl, canon_params(params()))])
    if kind == "data":
        return sctp_packet(vt, [chunk(0, r.choice([0, 1, 2, 3, 4, 7]), struct.pack("!LHHL", r.getrandbits(32), r.randrange(65536), r.randrange(65536), r.getrandbits(32))
                                      + rb(r.choice([1, 2, 3, 4, 5, 7, 100, 1199, 1200])))])
    if kind == "sack":
        ng, nd = r.choice([0, 1, 3, 20]), r.choice([0, 1, 5])
        body = struct.pack("!LLHH", r.getrandbits(32), r.getrandbits(32), ng, nd)
        body += b"".join(struct.pack("!HH", r.randrange(65536), r.randrange(65536)) for _ in range(ng))
        body += b"".join(struct.pack("!L", r.getrandbits(32)) for _ in range(nd))
        return sctp_packet(vt, [chunk(3, fl, body)])
    if kind == "forward-tsn":
        body = struct.pack("!L", r.getrandbits(32)) + b"".join(struct.pack("!HH", r.randrange(65536), r.randrange(65536)) for _ in range(r.choice([0, 1, 4])))
        return sctp_packet(vt, [chunk(192, fl, body)])
    if kind == "cookie-echo":
        return sctp_packet(vt, [chunk(10, fl, rb(r.choice([1, 4, 24, 33])))])
    if kind == "shutdown":
        return sctp_packet(vt, [chunk(7, fl, struct.pack("!L", r.getrandbits(32)))])
    ct = {"cookie-ack": 11, "shutdown-ack": 8, "shutdown-complete": 14}[kind]
    return sctp_packet(vt, [chunk(ct, fl, b"")])


# forged datagram classes ----------------------------------------------------------------------------
# (name, layer, void?)  void = rejected or a no-op by protocol in every state: valid traffic must go on afterwards
SCTP_VOID = ["bad-crc", "bad-vtag", "short-packet", "bad-chunk-length", "unknown-chunk", "truncated-known-chunk",
             "heartbeat", "heartbeat-ack", "cookie-ack", "init-ack", "error", "shutdown-ack", "shutdown-complete",
             "cookie-echo-bad", "data-duplicate-tsn", "sack-old", "sack-weird-gaps", "sack-counts-beyond-body",
             "forward-tsn-old", "reconfig-unknown-param", "reconfig-bad-param-length", "reconfig-response-unmatched",
             "reconfig-add-streams", "init-zero-length-param", "init-bundled", "params-odd-lengths",
             "data-unused-stream-junk", "data-unused-stream-dcep-garbage", "data-unused-stream-bad-utf8",
             "data-unused-stream-middle-fragment", "data-empty-payload", "bundled-void-chunks"]
SCTP_CHANGING = ["abort", "shutdown", "sack-lying", "forward-tsn-lying", "reconfig-reset-live", "data-live-stream-junk",
                 "dcep-open-existing", "dcep-ack-unknown", "sack-strikes", "bundled-then-association-ends",
                 "stream-fragment-reset-reopen"]
RTP_VOID = ["rtp-unknown-ssrc-and-pt", "rtp-short", "rtp-bad-version", "rtp-ext-wrong-lengths", "rtp-ext-two-byte",
            "rtp-padding-extremes", "rtp-csrc-extremes", "rtcp-unknown-ssrc", "rtcp-length-mismatch", "rtcp-count-mismatch",
            "rtcp-truncated", "rtcp-remb-bad-fci", "rtcp-nack-huge", "rtcp-sdes-truncated", "rtcp-bye-weird",
            "rtcp-unknown-type", "rtcp-compound-mixed"]
RTP_CHANGING = ["rtp-live-absurd-seq", "rtp-live-absurd-ts", "rtp-live-bad-codec-payload", "rtx-short", "rtcp-feedback-live",
                "rtcp-remb-live-bad-fci", "rtcp-sr-live", "rtp-many-sources"]
AUDIO = ["audio-empty-payload", "audio-one-byte-payload", "audio-garbage-payload", "audio-truncated-payload",
         "audio-oversized-payload"]
VIDEO_REAL = ["video-undecodable-frame"]
RAW = ["raw-random", "raw-empty", "raw-one-byte", "raw-truncated-ciphertext", "raw-bitflipped-ciphertext", "raw-dtls-like",
       "raw-srtp-like", "raw-stun-like"]
ALL_CLASSES = SCTP_VOID + SCTP_CHANGING + RTP_VOID + RTP_CHANGING + RAW + AUDIO + VIDEO_REAL

VIDEO_SSRC, VIDEO_RTX_SSRC, V_SENDER_SSRC = 0x0A0B0C01, 0x0A0B0C02, 0x0D0E0F01
AUDIO_SSRC = 0x0A0B0D01
REALV_SSRC = 0x0A0B0E01
_ENCODED_VIDEO = {}       # codec name -> [[rtp payloads of frame 0 (key frame)], [frame 1], ...]  (per process)


def encoded_video(codec):
    """A short genuinely encoded sequence (one key frame, then delta frames), already packetised by aiortc's encoder."""
    key = codec.mimeType
    if key not in _ENCODED_VIDEO:
        import fractions
        import av
        import numpy
        from aiortc.codecs import get_encoder
        enc = get_encoder(codec)
        frames = []
        for i in range(46):
            arr = numpy.zeros((48, 64, 3), dtype=numpy.uint8)
            arr[:, :, 0] = (numpy.arange(64) * 3 + i * 5) % 256
            arr[:, :, 1] = (i * 7) % 256
            f = av.VideoFrame.from_ndarray(arr, format="rgb24")
            f.pts, f.time_base = i * 3000, fractions.Fraction(1, 90000)
            payloads, _ = enc.encode(f, force_keyframe=(i == 0))
            frames.append([bytes(x) for x in payloads])
        _ENCODED_VIDEO[key] = frames
    return _ENCODED_VIDEO[key]


class BatonQueue:
    """The decoder's input queue, with the real decoder_worker behind it in a real thread that runs only while the
    event loop thread waits in put(): one item is decoded to completion, then the loop thread goes on.  Which thread
    runs is therefore decided, not raced; what the worker posts to the loop (call_soon_threadsafe) lands in order."""

    def __init__(self, *a, **kw):
        import collections
        import threading
        self.items = collections.deque()
        self.cv = threading.Condition()
        self.idle = False
        self.thread = None
        self.died = None            # exception that ended the worker
        self.put_after_death = 0

    def get(self):                  # decoder thread
        with self.cv:
            self.idle = True
            self.cv.notify_all()
            while not self.items:
                self.cv.wait()
            self.idle = False
            return self.items.popleft()

    def put(self, item):            # event loop thread
        with self.cv:
            if self.thread is None or not self.thread.is_alive():
                self.put_after_death += 1
                return
            self.items.append(item)
            self.cv.notify_all()
            while self.thread.is_alive() and not (self.idle and not self.items):
                self.cv.wait(0.05)


class BatonThread:
    """threading.Thread for the decoder of a BatonQueue: the real target in a real thread, its death recorded."""

    def __init__(self, target=None, name=None, args=(), kwargs=None):
        import threading
        self.queue = next((a for a in args if isinstance(a, BatonQueue)), None)

        def run():
            try:
                target(*args, **(kwargs or {}))
            except BaseException as exc:  # noqa
                if self.queue is not None:
                    self.queue.died = exc
            finally:
                if self.queue is not None:
                    with self.queue.cv:
                        self.queue.cv.notify_all()
        self.t = threading.Thread(target=run, name=name, daemon=True)
        if self.queue is not None:
            self.queue.thread = self.t

    def start(self):
        self.t.start()
        q = self.queue
        if q is not None:
            with q.cv:
                while self.t.is_alive() and not q.idle:
                    q.cv.wait(0.05)

    def join(self, timeout=None):
        self.t.join(timeout if timeout is not None else 5.0)

    def is_alive(self):
        return self.t.is_alive()


def gen_hostile(ch, spec):
    cfg = {"world": "hostile"}
    cfg["sched"] = ch.chance("cfg", 0.7, True)
    cfg["stall_rate"] = ch.choice("cfg", [0.0, 0.0, 0.002])
    cfg["stall_max"] = ch.choice("cfg", [0.02, 0.2])
    cfg["base"] = ch.choice("cfg", [0.002, 0.02])
    cfg["victim_is_sctp_server"] = ch.chance("cfg", 0.5)
    cfg["codec"] = ch.choice("cfg", ["VP8", "H264"])
    cfg["turn"] = fakes.gen_turn(ch, ["V"], chance=0.1)
    # an audio stream next to the video one, with genuinely encoded frames and the real decoder behind the receiver
    cfg["audio"] = ch.choice("cfg", [None, "opus", "opus", "PCMU", "PCMA"])
    # and a second video stream of genuinely encoded frames with the real decoder (judged in runs whose ordinary
    # network faults are switched off, so that every frame that fails to decode is the forger's doing)
    cfg["real_video"] = ch.chance("cfg", 0.35)
    # ordinary network faults on the genuine traffic towards the victim (class d)
    cfg["p2v"] = random_profile(ch, "cfg", intensity=ch.choice("cfg", [0.0, 0.05, 0.2])).to_json()
    cfg["p2v"]["base"] = cfg["base"]
    cfg["p2v"]["reorder_max"] = min(cfg["p2v"]["reorder_max"], 0.5)
    if cfg["real_video"]:
        cfg["p2v"] = Profile(base=cfg["base"]).to_json()
    # the program: protocol milestones in order, injections sprinkled anywhere
    milestones = ["start_sctp", "open_channel", "start_media", "burst", "burst", "close_channel"]
    ops = [{"op": m} for m in milestones]
    # in a share of the runs the victim has data of its own in flight when forged acknowledgements arrive: it sends
    # on its end of the channel (possibly a partially reliable one) and the genuine acknowledgements are slow
    if ch.chance("cfg", 0.4):
        cfg["victim_sends"] = True
        cfg["pr"] = ch.choice("cfg", [None, {"maxRetransmits": 0}, {"maxRetransmits": 0}, {"maxPacketLifeTime": 40}])
        cfg["ack_delay"] = ch.choice("cfg", [0.0, 0.2, 1.0])
        for _ in range(ch.choice("cfg", [1, 2, 4])):
            ops.insert(2 + ch.index("wl", len(ops) - 1), {"op": "victim_burst", "n": ch.choice("wl", [1, 1, 2, 5]),
                                                        "size": ch.choice("wl", [10, 3000, 5000, 9000])})
    n_inj = ch.choice("wl", [3, 8, 15, 30])
    run = spec.get("run", 0)
    for i in range(n_inj):
        # sweep: every class is hit systematically as run indices advance; the rest is sampled
        if i == 0:
            cls = ALL_CLASSES[run % len(ALL_CLASSES)]
        else:
            cls = ch.choice("wl", ALL_CLASSES)
        op = {"op": "inject", "cls": cls, "k": ch.randint("wl", 0, 1 << 30, 1)}
        pos = ch.index("wl", len(ops) + 1)
        if i == 0:
            pos = (run // len(ALL_CLASSES)) % (len(ops) + 1)
        ops.insert(pos, op)
    for op in ops:
        op["dt"] = ch.choice("wl", [0.0, 0.0, 0.005, 0.05, 0.3, 1.5])
    if cfg.get("real_video"):
        # the stream with the real decoder gets its undecodable frames (the class is also swept like every other)
        at = next(i for i, o in enumerate(ops) if o["op"] == "start_media") + 1
        for _ in range(ch.choice("wl", [1, 2])):
            ops.insert(at + ch.index("wl", len(ops) - at + 1), {"op": "inject", "cls": "video-undecodable-frame",
                                                               "k": ch.randint("wl", 0, 1 << 30, 1), "dt": ch.choice("wl", [0.3, 1.0, 2.0])})
    if cfg.get("victim_sends"):
        # forged acknowledgements placed where they matter: right behind a burst of the victim's own, while that
        # data is still in flight (the genuine acknowledgements are slow)
        i = 0
        while i < len(ops):
            if ops[i]["op"] == "victim_burst" and ch.chance("wl", 0.6):
                ops.insert(i + 1, {"op": "inject", "cls": ch.choice("wl", ["sack-strikes", "sack-strikes", "sack-weird-gaps",
                                                                       "sack-lying", "sack-old", "forward-tsn-lying"]),
                                   "k": ch.randint("wl", 0, 1 << 30, 1), "dt": ch.choice("wl", [0.0, 0.005, 0.05])})
                i += 1
            i += 1
    if ch.chance("wl", 0.4):
        cfg["handshake_injections"] = [[ch.choice("wl", RAW), ch.randint("wl", 0, 1 << 30, 1), ch.choice("wl", [0.0, 0.011, 0.03, 0.06, 0.1])]
                                       for _ in range(ch.choice("wl", [1, 2, 4]))]
    return cfg, ops


class HostileWorld(MediaBase):
    engine = "hostile_sim"
    COST_LIMIT = 3_000_000

    def __init__(self, spec, ch, cfg, ops):
        super().__init__(spec, ch, cfg, ops, max_steps=4_000_000)
        world = self

        class TapQueue:
            def __init__(self, *a, **kw):
                pass

            def put(self, item):
                if item is not None:
                    world.frames_tapped += 1

        class QueueMod:
            @staticmethod
            def Queue(*a, **kw):
                # the audio receiver gets the real decoder worker behind a baton queue, the video receivers a tap
                if world.next_queue is not None:
                    kind, world.next_queue = world.next_queue, None
                    q = BatonQueue()
                    world.batons[kind] = q
                    if kind == "audio":
                        world.audio_queue = q
                    return q
                return TapQueue()

        class ThreadingMod:
            @staticmethod
            def Thread(target=None, name=None, args=(), kwargs=None):
                if any(isinstance(a, BatonQueue) for a in args):
                    return BatonThread(target=target, name=name, args=args, kwargs=kwargs)
                return _FakeThreading.Thread()

        self.next_queue = None
        self.reopened = {}
        self.batons = {}
        self.rv_decoded = 0
        self.rv_sent = 0
        self.rv_check = None
        self.audio_queue = None
        self.audio_decoded = 0
        self.audio_seq = 0
        self.audio_sent = 0
        self.rebind(rxmod, "threading", ThreadingMod)
        self.rebind(rxmod, "queue", QueueMod)
        r32 = [VIDEO_SSRC, VIDEO_RTX_SSRC, 1000, V_SENDER_SSRC, V_SENDER_SSRC + 1, 5000]
        real_r32 = txmod.random32
        self.rebind(txmod, "random32", lambda: r32.pop(0) if r32 else real_r32())
        self.frames_tapped = 0
        self.frames_plan = [(600 + (i * 331) % 2500, 0.04) for i in range(4000)]
        self.forged = {}            # plaintext -> class (authenticated injections, for the cost meter)
        self.last_cipher = None
        self.sctp_changed = False   # a state-changing SCTP datagram was injected: clause (3) no longer applies to data
        self.media_changed = False
        self.sctp_started = False
        self.media_started = False
        self.chan = {}              # "P"/"V" -> RTCDataChannel
        self.got = {"P": [], "V": []}
        self.counter = 0
        self.dead = None
        self.injected = 0
        fab = self.fabric
        fab.profiles[("P", "V")] = Profile.from_json(cfg["p2v"])
        fab.class_profiles[("P", "V")] = {"dtls-hs": Profile(base=cfg["base"])}
        fab.profiles[("V", "P")] = Profile(base=cfg["base"])
        if cfg.get("ack_delay"):
            # application records from the victim (its data and its acknowledgements) and towards it are slow, so that
            # the victim's own data is still in flight when a forged acknowledgement lands
            fab.class_profiles[("V", "P")] = {"dtls-app": Profile(base=cfg["base"] + cfg["ack_delay"], fifo=True)}
        fab.taps.append(self.on_wire)
        self.tool = None

    def frame_bytes(self, i, size):
        import random
        rnd = random.Random(i * 7919 + 13)
        if self.cfg["codec"] == "H264":
            return b"\x00\x00\x00\x01\x65" + bytes(rnd.randrange(1, 256) for _ in range(size))
        return bytes(rnd.randrange(1, 256) for _ in range(size))

    def on_wire(self, src, dst, event, data, info):
        if event == "send" and src == "P" and len(data) > 20 and fakes.classify_datagram(data) in ("srtp", "dtls-app", "srtcp"):
            self.last_cipher = data

    # -- the cost meter ------------------------------------------------------------------------------
    def meter_start(self):
        mon = sys.monitoring
        self.cost = 0
        if self.tool is None:
            for tid in (3, 4, 2):
                try:
                    mon.use_tool_id(tid, "simrtc-cost")
                    self.tool = tid
                    break
                except ValueError:
                    continue
        if self.tool is None:
            return False

        def on_line(code, line):
            self.cost += 1
            if self.cost > self.COST_LIMIT:
                mon.set_events(self.tool, 0)
                raise CostExceeded(code.co_filename.rsplit("/", 1)[-1] + ":" + code.co_name)

        mon.register_callback(self.tool, mon.events.LINE, on_line)
        mon.set_events(self.tool, mon.events.LINE)
        return True

    def meter_stop(self):
        if self.tool is not None:
            sys.monitoring.set_events(self.tool, 0)
        return self.cost

    def cleanup(self):
        if self.tool is not None:
            try:
                sys.monitoring.set_events(self.tool, 0)
                sys.monitoring.free_tool_id(self.tool)
            except Exception:  # noqa
                pass
            self.tool = None
        for q in list(getattr(self, "batons", {}).values()):
            if q.thread is not None and q.thread.is_alive():
                q.put(None)             # the worker's own end-of-stream marker
                q.thread.join(2.0)
        super().cleanup()

    def wrap_handler(self, obj, name, label):
        orig = getattr(obj, name)

        async def handler(data, *a, **kw):
            cls = self.forged.pop(bytes(data), None)
            if cls is None:
                return await orig(data, *a, **kw)
            import time as _time
            cpu0 = _time.thread_time()
            metered = self.meter_start()
            import tracemalloc
            mem0 = None
            if not tracemalloc.is_tracing():
                tracemalloc.start()
                mem0 = tracemalloc.get_traced_memory()[0]
            try:
                return await orig(data, *a, **kw)
            except CostExceeded as exc:
                self.violation("C05", "cost-out-of-proportion:%s:looping-in-%s" % (cls, str(exc).split(":")[-1]),
                               "a %d-byte %s datagram made %s execute more than %d lines (%s)" % (
                                   len(data), cls, label, self.COST_LIMIT, exc))
                raise ForgedKilled()
            finally:
                cpu = _time.thread_time() - cpu0
                if cpu > getattr(self, "max_cpu", (0.0, None))[0]:
                    self.max_cpu = (cpu, "%s/%d" % (cls, len(data)))
                if mem0 is not None:
                    peak = tracemalloc.get_traced_memory()[1] - mem0
                    tracemalloc.stop()
                    self.probes["memory_samples"] += 1
                    self.max_mem = max(getattr(self, "max_mem", 0), peak)
                    # "memory out of proportion": far beyond what handling one datagram can need (whatever else runs
                    # while the handler is suspended in a send is counted too, hence the generous constant)
                    mbound = 8_000_000 + 4000 * len(data)
                    if peak > mbound:
                        self.violation("C05", "memory-out-of-proportion:%s" % cls,
                                       "a %d-byte %s datagram made %s allocate %d bytes at peak (bound %d)" % (
                                           len(data), cls, label, peak, mbound))
                if metered:
                    cost = self.meter_stop()
                    self.probes["cost_samples"] += 1
                    self.max_cost = max(getattr(self, "max_cost", 0), cost)
                    # "out of proportion": far beyond any bounded amount of work per datagram (the largest legitimate
                    # per-datagram loops - e.g. 32767 sequence numbers declared missing at once - stay below 400k lines)
                    bound = 1_000_000 + 2000 * len(data)
                    if cost > bound and cost <= self.COST_LIMIT:
                        self.violation("C05", "cost-out-of-proportion:%s" % cls,
                                       "a %d-byte %s datagram cost %d executed lines in %s (bound %d)" % (
                                           len(data), cls, cost, label, bound))

        setattr(obj, name, handler)

    # -- set-up ----------------------------------------------------------------------------------------
    async def main(self):
        cfg = self.cfg
        names = ("V", "P") if cfg["victim_is_sctp_server"] is False else ("P", "V")
        # the first name is ICE-controlling; RTCSctpTransport.is_server is "not controlling"
        pair = self.pair = TransportPair(self, names=names)
        # protocol state "DTLS handshake in progress": raw datagrams of every first-byte range arrive meanwhile
        conn = self.loop.create_task(pair.connect())
        hs = cfg.get("handshake_injections") or []
        for cls, k, dt in hs:
            await asyncio.sleep(dt)
            vconn = next((c for c in self.fabric.conns if c.node == "V"), None)
            if vconn is not None and not conn.done():
                data = self.build_raw(cls, k)
                self.log.add("inject-during-handshake", cls, len(data))
                self.probes["injected_during_handshake"] += 1
                self.injected += 1
                self.loop.call_soon(vconn.inject, data, context=pair.ctx["V"])
        await conn
        for n, exc in pair.start_errors:
            self.violation("C05", "receive-path-died-during-dtls-handshake:" + exc_tag(exc),
                           "RTCDtlsTransport.start() on %s raised %r" % (n, exc))
            return
        if any(pair.dtls[n].state != "connected" for n in "PV"):
            if hs:
                self.violation("C05", "dtls-handshake-wedged-by-a-datagram", "states %r after injecting %r" % (
                    {n: pair.dtls[n].state for n in "PV"}, [h[0] for h in hs]))
                return
            raise AssertionError("transport pair failed to connect")
        self.sctp = {n: pair.ctx[n].run(sctpmod.RTCSctpTransport, pair.dtls[n], 5000) for n in "PV"}
        self.wrap_handler(self.sctp["V"], "_handle_data", "RTCSctpTransport._handle_data")
        self.wrap_handler(pair.dtls["V"], "_handle_rtp_data", "RTCDtlsTransport._handle_rtp_data")
        self.wrap_handler(pair.dtls["V"], "_handle_rtcp_data", "RTCDtlsTransport._handle_rtcp_data")
        self.sctp["V"].on("datachannel", self.on_datachannel)
        self.vconn = next(c for c in self.fabric.conns if c.node == "V")
        for op in self.ops:
            if op.get("dt"):
                await asyncio.sleep(op["dt"])
            if self.dead:
                break
            try:
                await self.apply(op)
            except Exception as exc:  # noqa
                self.harness_note(exc)
                return
            self.check_alive("after " + (op.get("cls") or op["op"]))
        if not self.dead:
            await asyncio.sleep(2.0)
            self.check_alive("at the end")
        if not self.dead:
            await self.final_liveness()
        self.link_faults(self.fabric.links)

    def on_datachannel(self, ch):
        if ch.label != "main":
            self.probes["forged_channel_announced"] += 1     # a forged DCEP OPEN on an unused stream: legitimate
            got = self.reopened.setdefault(ch.label, [])
            ch.on("message", lambda m, got=got: got.append(m if isinstance(m, str) else m.decode("latin1")))
            return
        self.chan["V"] = ch
        ch.on("message", lambda m: self.got["V"].append(m))

    async def apply(self, op):
        kind = op["op"]
        pair = self.pair
        self.log.add("op", kind, op.get("cls"))
        if kind == "start_sctp":
            caps = sctpmod.RTCSctpCapabilities(maxMessageSize=65536)
            for n in "PV":
                self.loop.create_task(self.sctp[n].start(caps, 5000), context=pair.ctx[n])
            self.sctp_started = True
        elif kind == "open_channel" and self.sctp_started and "P" not in self.chan:
            ch = pair.ctx["P"].run(RTCDataChannel, self.sctp["P"], RTCDataChannelParameters(label="main", **(self.cfg.get("pr") or {})))
            ch.on("message", lambda m: self.got["P"].append(m))
            self.chan["P"] = ch
        elif kind == "burst":
            ch = self.chan.get("P")
            if ch is not None and ch.readyState == "open":
                for i in range(12):
                    self.counter += 1
                    pair.ctx["P"].run(ch.send, "b%05d " % self.counter + "x" * 2000)
        elif kind == "victim_burst":
            ch = self.chan.get("V")
            if ch is not None and ch.readyState == "open":
                for i in range(op["n"]):
                    self.counter += 1
                    pair.ctx["V"].run(ch.send, "v%05d " % self.counter + "y" * op["size"])
                self.probes["victim_bursts"] += 1
        elif kind == "close_channel":
            ch = self.chan.get("P")
            if ch is not None and ch.readyState == "open" and not self.sctp_changed:
                pass        # keep the channel: the final liveness round trip uses it
        elif kind == "start_media" and not self.media_started:
            if all(pair.dtls[n].state == "connected" for n in "PV"):
                await self.start_media()
        elif kind == "inject":
            await self.inject(op["cls"], op["k"])

    async def start_media(self):
        cfg, pair = self.cfg, self.pair
        self.media_started = True
        if cfg["codec"] == "H264":
            media = RTCRtpCodecParameters(mimeType="video/H264", clockRate=90000, payloadType=96,
                                          parameters={"packetization-mode": "1", "profile-level-id": "42e01f"})
        else:
            media = RTCRtpCodecParameters(mimeType="video/VP8", clockRate=90000, payloadType=96)
        rtx = RTCRtpCodecParameters(mimeType="video/rtx", clockRate=90000, payloadType=97, parameters={"apt": 96})
        ext = [RTCRtpHeaderExtensionParameters(id=2, uri=ABS_SEND_TIME), RTCRtpHeaderExtensionParameters(id=1, uri=MID_URI)]
        cfg.setdefault("pts0", 0)
        # P sends video to V
        track = self.track = SimPacketTrack(self)
        self.p_sender = pair.ctx["P"].run(txmod.RTCRtpSender, track, pair.dtls["P"])
        self.v_receiver = pair.ctx["V"].run(rxmod.RTCRtpReceiver, "video", pair.dtls["V"])
        self.v_receiver._track = rxmod.RemoteStreamTrack(kind="video")
        # V sends video to P (so that V's sender receives feedback)
        track2 = SimPacketTrack(self)
        self.v_sender = pair.ctx["V"].run(txmod.RTCRtpSender, track2, pair.dtls["V"])
        self.p_receiver = pair.ctx["P"].run(rxmod.RTCRtpReceiver, "video", pair.dtls["P"])
        self.p_receiver._track = rxmod.RemoteStreamTrack(kind="video")
        self.v_receiver._set_rtcp_ssrc(self.v_sender._ssrc)
        self.p_receiver._set_rtcp_ssrc(self.p_sender._ssrc)

        def rparams(sender):
            return RTCRtpReceiveParameters(codecs=[media, rtx], headerExtensions=ext, muxId="0",
                                           rtcp=RTCRtcpParameters(cname="sim", mux=True),
                                           encodings=[RTCRtpDecodingParameters(ssrc=sender._ssrc, payloadType=96,
                                                                               rtx=RTCRtpRtxParameters(ssrc=sender._rtx_ssrc))])

        def sparams(sender):
            return RTCRtpSendParameters(codecs=[media, rtx], headerExtensions=ext, muxId="0",
                                        rtcp=RTCRtcpParameters(cname="sim", mux=True, ssrc=sender._ssrc),
                                        encodings=[RTCRtpEncodingParameters(ssrc=sender._ssrc, payloadType=96)])

        if cfg.get("audio"):
            await self.start_audio()
        if cfg.get("real_video"):
            await self.start_real_video(media)
        await self.loop.create_task(self.v_receiver.receive(rparams(self.p_sender)), context=pair.ctx["V"])
        await self.loop.create_task(self.p_receiver.receive(rparams(self.v_sender)), context=pair.ctx["P"])
        await self.loop.create_task(self.p_sender.send(sparams(self.p_sender)), context=pair.ctx["P"])
        await self.loop.create_task(self.v_sender.send(sparams(self.v_sender)), context=pair.ctx["V"])

    async def start_audio(self):
        """P streams genuinely encoded audio to V; V's receiver decodes it with the real decoder worker."""
        import fractions
        import av
        from aiortc.codecs import get_encoder
        cfg, pair = self.cfg, self.pair
        name = cfg["audio"]
        if name == "opus":
            codec = RTCRtpCodecParameters(mimeType="audio/opus", clockRate=48000, channels=2, payloadType=111)
            rate, layout, n = 48000, "stereo", 960
        else:
            codec = RTCRtpCodecParameters(mimeType="audio/" + name, clockRate=8000, channels=1, payloadType=0 if name == "PCMU" else 8)
            rate, layout, n = 8000, "mono", 160
        self.audio_codec, self.audio_ts_step = codec, n
        enc = get_encoder(codec)
        self.audio_payloads = []
        for i in range(8):
            f = av.AudioFrame(format="s16", layout=layout, samples=n)
            for pl in f.planes:
                pl.update(bytes(((i * 37 + j * 11) & 0x3F) for j in range(pl.buffer_size)))
            f.pts, f.sample_rate, f.time_base = i * n, rate, fractions.Fraction(1, rate)
            payloads, _ = enc.encode(f)
            self.audio_payloads += [bytes(x) for x in payloads]
        self.next_queue = "audio"
        self.a_receiver = pair.ctx["V"].run(rxmod.RTCRtpReceiver, "audio", pair.dtls["V"])
        self.a_receiver._track = rxmod.RemoteStreamTrack(kind="audio")
        world = self

        class CountingQueue:                # the track's queue: decoded frames arrive here
            def __init__(self):
                self.n = 0

            async def put(self, frame):
                if frame is not None:
                    world.audio_decoded += 1

            def put_nowait(self, frame):
                if frame is not None:
                    world.audio_decoded += 1
        self.a_receiver._track._queue = CountingQueue()
        # (with an audio section every header extension aiortc knows is configured on the transport, so that each
        #  extension's parser is reachable by a forged packet: ids 3..7 besides mid = 1 and abs-send-time = 2)
        more = [RTCRtpHeaderExtensionParameters(id=i, uri=u) for i, u in (
            (3, "urn:ietf:params:rtp-hdrext:ssrc-audio-level"), (4, "urn:ietf:params:rtp-hdrext:toffset"),
            (5, "http://www.ietf.org/id/draft-holmer-rmcat-transport-wide-cc-extensions-01"),
            (6, "urn:ietf:params:rtp-hdrext:sdes:rtp-stream-id"), (7, "urn:ietf:params:rtp-hdrext:sdes:repaired-rtp-stream-id"))]
        params = RTCRtpReceiveParameters(codecs=[codec], muxId="1", rtcp=RTCRtcpParameters(cname="sim", mux=True), headerExtensions=more,
                                         encodings=[RTCRtpDecodingParameters(ssrc=AUDIO_SSRC, payloadType=codec.payloadType)])
        await self.loop.create_task(self.a_receiver.receive(params), context=pair.ctx["V"])
        self.audio_seq = 100
        self.audio_ts = 0
        self.audio_task = self.loop.create_task(self.audio_sender(), context=pair.ctx["P"])

    async def start_real_video(self, media):
        cfg, pair = self.cfg, self.pair
        codec = RTCRtpCodecParameters(mimeType=media.mimeType, clockRate=90000, payloadType=100, parameters=dict(media.parameters))
        self.rv_codec = codec
        self.rv_frames = encoded_video(codec)
        self.next_queue = "video"
        self.rv_receiver = pair.ctx["V"].run(rxmod.RTCRtpReceiver, "video", pair.dtls["V"])
        self.rv_receiver._track = rxmod.RemoteStreamTrack(kind="video")
        world = self

        class CountingQueue:
            async def put(self, frame):
                if frame is not None:
                    world.rv_decoded += 1
        self.rv_receiver._track._queue = CountingQueue()
        params = RTCRtpReceiveParameters(codecs=[codec], muxId="2", rtcp=RTCRtcpParameters(cname="sim", mux=True),
                                         encodings=[RTCRtpDecodingParameters(ssrc=REALV_SSRC, payloadType=100)])
        await self.loop.create_task(self.rv_receiver.receive(params), context=pair.ctx["V"])
        self.rv_seq, self.rv_ts, self.rv_pos = 500, 0, 0
        self.rv_forge = None
        # reference: the codec library itself, fed the very same frames (the forged one included) outside aiortc
        import av
        self.rv_ref = av.CodecContext.create("libvpx" if codec.mimeType.endswith("VP8") else "h264", "r")
        self.rv_ref_decoded = 0
        self.rv_task = self.loop.create_task(self.real_video_sender(), context=pair.ctx["P"])

    async def real_video_sender(self):
        pair = self.pair
        while not self.dead and pair.dtls["P"].state == "connected":
            payloads = self.rv_frames[self.rv_pos]
            forged = False
            if self.rv_forge is not None and 1 <= self.rv_pos <= 20:
                # this frame leaves with undecodable codec data instead (intact RTP header and payload descriptor)
                r, self.rv_forge = self.rv_forge, None
                # (an inter frame with a garbage body: the payload descriptor / NAL header of the genuine frame is kept,
                # so that the decoder is handed a frame of the same kind and rejects its contents)
                from aiortc.codecs import depayload
                first = payloads[0]
                body = depayload(self.rv_codec, first)
                if self.rv_codec.mimeType.endswith("VP8"):
                    head = first[:len(first) - len(body)]             # the VP8 payload descriptor
                    garbage = bytes([r.randrange(256) | 1]) + bytes(r.randrange(256) for _ in range(max(8, len(body) - 1)))
                else:
                    head = first[:1]                                    # the NAL unit header (a non-IDR slice)
                    garbage = bytes(r.randrange(256) for _ in range(max(8, len(first) - 1)))
                payloads = [head + garbage]
                forged = True
            self.rv_ts = (self.rv_ts + 3000) & 0xFFFFFFFF
            try:
                import av
                from aiortc.codecs import depayload as _dep
                pk = av.Packet(b"".join(_dep(self.rv_codec, x) for x in payloads))
                self.rv_ref_decoded += len(self.rv_ref.decode(pk))
            except av.FFmpegError:
                pass
            for i, pl in enumerate(payloads):
                self.rv_seq = (self.rv_seq + 1) & 0xFFFF
                marker = 0x80 if i == len(payloads) - 1 else 0
                pkt = struct.pack("!BBHLL", 0x80, marker | 100, self.rv_seq, self.rv_ts, REALV_SSRC) + pl
                if forged:
                    self.forged[pkt] = "video-undecodable-frame"
                try:
                    await pair.dtls["P"]._send_rtp(pkt)
                except Exception:  # noqa
                    return
            if forged:
                self.probes["undecodable_video_frames_sent"] += 1
                self.rv_check = {"decoded": self.rv_decoded, "sent": self.rv_sent}
            else:
                self.rv_sent += 1
            self.rv_pos = (self.rv_pos + 1) % len(self.rv_frames)
            c = self.rv_check
            if c is not None and self.rv_sent >= c["sent"] + 14:
                # fourteen genuine delta frames later (the next key frame is still ahead): they were decoded
                self.rv_check = None
                await asyncio.sleep(0.3)
                # how soon a codec recovers from garbage is its own business: the yardstick is the codec library
                # itself, fed the same frames (a few frames may still sit in the jitter buffer)
                behind = self.rv_ref_decoded - self.rv_decoded
                if behind > 4 and not self.dead and not self.violations:
                    self.violation("C05", "valid-traffic-stalled:video-decoding-falls-behind-the-codec-itself:%s" % self.cfg["codec"],
                                   "after an undecodable frame and %d genuine ones: the codec library alone has decoded %d frames "
                                   "of this stream, the receiver %d" % (self.rv_sent - c["sent"], self.rv_ref_decoded, self.rv_decoded))
                else:
                    self.probes["video_decoded_on_after_undecodable_frame"] += 1
            await asyncio.sleep(0.033)

    def audio_packet(self, payload):
        self.audio_seq = (self.audio_seq + 1) & 0xFFFF
        self.audio_ts = (self.audio_ts + self.audio_ts_step) & 0xFFFFFFFF
        return struct.pack("!BBHLL", 0x80, self.audio_codec.payloadType, self.audio_seq, self.audio_ts, AUDIO_SSRC) + payload

    async def audio_sender(self):
        pair = self.pair
        i = 0
        while not self.dead and pair.dtls["P"].state == "connected":
            try:
                await pair.dtls["P"]._send_rtp(self.audio_packet(self.audio_payloads[i % len(self.audio_payloads)]))
                self.audio_sent += 1
            except Exception:  # noqa
                return
            i += 1
            await asyncio.sleep(0.02)

    # -- the forging actor -------------------------------------------------------------------------
    def rng(self, k):
        import random
        return random.Random(k)

    def vtag(self):
        return getattr(self.sctp["V"], "_local_verification_tag", 0)

    def fresh_tsn(self):
        """A TSN taken from the peer stack's own counter, so that the association stays in step."""
        p = self.sctp["P"]
        tsn = p._local_tsn
        p._local_tsn = (tsn + 1) & 0xFFFFFFFF
        self._borrowed_tsn = True
        return tsn

    def build_sctp(self, cls, k):
        """-> (datagram plaintext, state_changing)"""
        r = self.rng(k)
        v = self.sctp["V"]
        vt = self.vtag()
        cum = getattr(v, "_last_received_tsn", 0) or 0
        rb = lambda n: bytes(r.randrange(256) for _ in range(n))   # noqa: E731
        live_sid = next(iter(getattr(v, "_data_channels", {}) or {1: None}))
        unused_sid = r.choice([40000 + r.randrange(1000)] * 4 + [65535, 65534, 30000 + r.randrange(1000)])
        changing = cls in SCTP_CHANGING

        def data(tsn, sid, sseq, ppid, payload, flags=3):
            return chunk(0, flags, struct.pack("!LHHL", tsn, sid, sseq, ppid) + payload)
        if cls == "bad-crc":
            return sctp_packet(vt, [chunk(4, 0, param(1, rb(8)))], bad_crc=True), False
        if cls == "bad-vtag":
            return sctp_packet(vt ^ 0x1234, [chunk(4, 0, param(1, rb(8)))]), False
        if cls == "short-packet":
            return rb(r.randrange(0, 15)), False
        if cls == "bad-chunk-length":
            return sctp_packet(vt, [chunk(r.choice([0, 3, 4, 9]), 0, rb(12), length=r.choice([0, 1, 3, 2000, 65535]))]), False
        if cls == "unknown-chunk":
            return sctp_packet(vt, [chunk(r.choice([12, 13, 15, 63, 64, 127, 129, 191, 193, 255]), r.randrange(256), rb(r.randrange(0, 40)))]), False
        if cls == "truncated-known-chunk":
            # (type, size of its fixed header): the body is cut short of it; for parameter chunks the cut is
            # inside a parameter header
            ctype, fixed = r.choice([(0, 12), (1, 16), (2, 16), (3, 12), (7, 4), (192, 4), (130, 4), (9, 4), (4, 4), (5, 4)])
            return sctp_packet(vt if ctype != 1 else 0, [chunk(ctype, r.randrange(256), rb(r.randrange(0, fixed)))]), False
        if cls == "heartbeat":
            return sctp_packet(vt, [chunk(4, 0, param(1, rb(r.randrange(0, 60))))]), False
        if cls == "heartbeat-ack":
            return sctp_packet(vt, [chunk(5, 0, param(1, rb(12)))]), False
        if cls == "cookie-ack":
            return sctp_packet(vt, [chunk(11, 0, b"")]), False
        if cls == "init-ack":
            return sctp_packet(vt, [chunk(2, 0, struct.pack("!LLHHL", r.getrandbits(32), 131072, 10, 10, r.getrandbits(32)) + param(7, rb(24)))]), False
        if cls == "error":
            return sctp_packet(vt, [chunk(9, 0, param(r.randrange(1, 14), rb(r.randrange(0, 20))))]), False
        if cls == "shutdown-ack":
            return sctp_packet(vt, [chunk(8, 0, b"")]), False
        if cls == "shutdown-complete":
            return sctp_packet(vt, [chunk(14, r.randrange(2), b"")]), False
        if cls == "cookie-echo-bad":
            return sctp_packet(vt, [chunk(10, 0, rb(r.choice([0, 3, 4, 24, 32])))]), False
        if cls == "data-duplicate-tsn":
            return sctp_packet(vt, [data((cum - r.randrange(0, 50)) & 0xFFFFFFFF, live_sid, 0, 51, b"dup")]), False
        if cls == "sack-old":
            p_last = getattr(self.sctp["V"], "_last_sacked_tsn", 0)
            return sctp_packet(vt, [chunk(3, 0, struct.pack("!LLHH", (p_last - 1 - r.randrange(100)) & 0xFFFFFFFF, 131072, 0, 0))]), False
        if cls in ("sack-weird-gaps", "sack-lying"):
            p_last = getattr(self.sctp["V"], "_last_sacked_tsn", 0)
            cumack = p_last if cls == "sack-weird-gaps" else (p_last + r.choice([1, 5, 1000, 1 << 31])) & 0xFFFFFFFF
            n = r.choice([1, 2, 5, 50, 290])
            gaps = b""
            for _ in range(n):
                a, b = r.choice([(5, 2), (0, 0), (1, 65535), (65535, 65535), (2, 3), (65535, 1), (r.randrange(65536), r.randrange(65536))])
                gaps += struct.pack("!HH", a, b)
            dups = b"".join(struct.pack("!L", r.getrandbits(32)) for _ in range(r.choice([0, 1, 40])))
            return sctp_packet(vt, [chunk(3, 0, struct.pack("!LLHH", cumack, 131072, n, len(dups) // 4) + gaps + dups)]), changing
        if cls == "sack-strikes":
            # several acknowledgements in one packet, each reporting the same hole right after the cumulative point:
            # enough "strikes" to make the victim declare its oldest chunk in flight lost at once
            p_last = getattr(self.sctp["V"], "_last_sacked_tsn", 0)
            hi = r.choice([2, 3, 5, 12, 40])
            one = chunk(3, 0, struct.pack("!LLHH", p_last, 131072, 1, 0) + struct.pack("!HH", 2, hi))
            return sctp_packet(vt, [one] * r.choice([3, 4, 6])), True
        if cls == "sack-counts-beyond-body":
            p_last = getattr(self.sctp["V"], "_last_sacked_tsn", 0)
            return sctp_packet(vt, [chunk(3, 0, struct.pack("!LLHH", p_last, 131072, r.choice([1, 100, 65535]), r.choice([0, 7, 65535])) + rb(r.choice([0, 3, 4, 6])))]), False
        if cls in ("forward-tsn-old", "forward-tsn-lying"):
            target = (cum - r.randrange(0, 20)) & 0xFFFFFFFF if cls == "forward-tsn-old" else (cum + r.choice([1, 100, 1 << 30])) & 0xFFFFFFFF
            streams = b"".join(struct.pack("!HH", r.choice([live_sid, unused_sid, 65535]), r.randrange(65536)) for _ in range(r.choice([0, 1, 3, 200])))
            tail = rb(r.choice([0, 0, 1, 2, 3]))
            return sctp_packet(vt, [chunk(192, 0, struct.pack("!L", target) + streams + tail)]), changing
        if cls == "reconfig-unknown-param":
            return sctp_packet(vt, [chunk(130, 0, param(r.choice([0, 1, 12, 14, 15, 18, 99, 0x8000, 0xFFFF]), rb(r.randrange(0, 24))))]), False
        if cls == "reconfig-bad-param-length":
            return sctp_packet(vt, [chunk(130, 0, param(r.choice([13, 16, 17]), rb(r.choice([0, 2, 5, 12])), length=r.choice([0, 1, 2, 3, 5, 7, 200, 65535])))]), False
        if cls == "reconfig-response-unmatched":
            return sctp_packet(vt, [chunk(130, 0, param(16, struct.pack("!LL", r.getrandbits(32), r.choice([0, 1, 2, 99]))))]), False
        if cls == "reconfig-add-streams":
            return sctp_packet(vt, [chunk(130, 0, param(17, struct.pack("!LHH", r.getrandbits(32), r.choice([0, 1, 65535]), 0)))]), False
        if cls == "reconfig-reset-live":
            seq = (getattr(v, "_reconfig_response_seq", 0) + 1) & 0xFFFFFFFF
            return sctp_packet(vt, [chunk(130, 0, param(13, struct.pack("!LLL", seq, 0, cum) + struct.pack("!H", live_sid)))]), True
        if cls == "init-zero-length-param":
            body = struct.pack("!LLHHL", r.getrandbits(32) or 1, 131072, 10, 10, r.getrandbits(32))
            return sctp_packet(0, [chunk(1, 0, body + struct.pack("!HH", r.choice([0xC000, 7, 0x8008]), r.choice([0, 1, 2, 3])) + rb(r.choice([0, 4])))]), \
                bool(self.sctp["V"].is_server)
        if cls == "init-bundled":
            body = struct.pack("!LLHHL", r.getrandbits(32) or 1, 131072, 10, 10, r.getrandbits(32))
            return sctp_packet(0, [chunk(1, 0, body), chunk(4, 0, param(1, rb(4)))]), bool(self.sctp["V"].is_server)
        if cls == "params-odd-lengths":
            ctype = r.choice([4, 5, 6, 9, 130])
            ps = b"".join(param(r.randrange(1, 20), rb(r.randrange(0, 9))) for _ in range(r.randrange(1, 5)))
            ps += struct.pack("!HH", r.randrange(20), r.choice([4, 5, 6, 7])) + rb(r.choice([0, 1, 2, 3]))
            return sctp_packet(vt, [chunk(ctype, 0, ps)]), ctype == 6
        if cls == "abort":
            return sctp_packet(vt, [chunk(6, 0, param(12, b"bye"))]), True
        if cls == "shutdown":
            return sctp_packet(vt, [chunk(7, 0, struct.pack("!L", cum))]), True
        if cls.startswith("data-unused-stream") or cls == "data-empty-payload":
            tsn = self.fresh_tsn()
            if cls == "data-unused-stream-junk":
                return sctp_packet(vt, [data(tsn, unused_sid, 0, r.choice([0, 1, 49, 52, 58, 0xFFFFFFFF]), rb(r.randrange(1, 50)))]), False
            if cls == "data-unused-stream-dcep-garbage":
                body = r.choice([b"", b"\x03", b"\x03\x00", b"\x02", b"\x07" + rb(5),
                                 b"\x03" + struct.pack("!BHLHH", r.randrange(256), 0, r.getrandbits(32), r.choice([0, 5, 65535]), r.choice([0, 5, 65535])) + rb(r.randrange(0, 12)),
                                 b"\x03" + struct.pack("!BHLHH", 0, 0, 0, 2, 2) + b"\xff\xfe\xff\xfe",
                                 # (a request that is fine in itself, for a stream nobody may use)
                                 b"\x03" + struct.pack("!BHLHH", r.choice([0, 1, 2, 0x80, 0x82]), 0, r.randrange(3), 4, 0) + b"edge",
                                 b"\x03" + struct.pack("!BHLHH", 0, 0, 0, 0, 0)])
                return sctp_packet(vt, [data(tsn, r.choice([unused_sid, unused_sid, 65535, 65534]), 0, 50, body)]), False
            if cls == "data-unused-stream-bad-utf8":
                return sctp_packet(vt, [data(tsn, unused_sid, 0, r.choice([51, 54]), b"\xff\xfe\xc3(" + rb(4))]), False
            if cls == "data-unused-stream-middle-fragment":
                return sctp_packet(vt, [data(tsn, unused_sid, r.randrange(65536), 53, rb(30), flags=r.choice([0, 1, 4]))]), False
            return sctp_packet(vt, [data(tsn, unused_sid, 0, r.choice([51, 53, 56, 57]), b"")]), False
        if cls == "data-live-stream-junk":
            return sctp_packet(vt, [data(self.fresh_tsn(), live_sid, r.randrange(65536), r.choice([50, 51, 53, 99]), rb(r.randrange(0, 30)), flags=r.choice([0, 1, 2, 3]))]), True
        if cls == "dcep-open-existing":
            body = b"\x03" + struct.pack("!BHLHH", 0, 0, 0, 1, 0) + b"x"
            return sctp_packet(vt, [data(self.fresh_tsn(), live_sid, 0, 50, body)]), True
        if cls == "dcep-ack-unknown":
            return sctp_packet(vt, [data(self.fresh_tsn(), unused_sid, 0, 50, b"\x02")]), True
        if cls == "bundled-then-association-ends":
            # chunks that ask for an acknowledgement (or merely precede), bundled in front of one that ends the
            # association: whatever the earlier chunks left to be done must cope with the association being gone
            first = r.choice([
                data((cum + 1) & 0xFFFFFFFF, unused_sid, 0, 51, b"tail"),
                data((cum - r.randrange(0, 5)) & 0xFFFFFFFF, live_sid, 0, 51, b"dup"),
                chunk(192, 0, struct.pack("!L", (cum + r.choice([0, 1, 3])) & 0xFFFFFFFF)),
                chunk(4, 0, param(1, rb(8))),
            ])
            last = r.choice([chunk(6, 0, param(12, b"bye")), chunk(6, 0, b""), chunk(14, 0, b""),
                             chunk(7, 0, struct.pack("!L", cum))])
            return sctp_packet(vt, [first, last]), True
        if cls == "bundled-void-chunks":
            cs = [chunk(4, 0, param(1, rb(4))), chunk(r.choice([12, 63, 200]), 0, rb(3)), chunk(5, 0, param(1, rb(8))),
                  chunk(11, 0, b"")]
            r.shuffle(cs)
            return sctp_packet(vt, cs), False
        raise KeyError(cls)

    def build_rtp(self, cls, k):
        """-> (plaintext RTP or RTCP, state_changing)"""
        r = self.rng(k)
        rb = lambda n: bytes(r.randrange(256) for _ in range(n))   # noqa: E731
        live = VIDEO_SSRC
        changing = cls in RTP_CHANGING

        def rtp(pt=96, seq=None, ts=None, ssrc=live, payload=b"", b0=0x80, ext=None, csrc=b"", marker=0):
            seq = r.randrange(65536) if seq is None else seq
            ts = r.getrandbits(32) if ts is None else ts
            h = struct.pack("!BBHLL", b0, (marker << 7) | pt, seq, ts, ssrc) + csrc
            if ext is not None:
                h += ext
            return h + payload

        def rtcp(pt, count, body, length=None):
            return struct.pack("!BBH", 0x80 | (count & 0x1F), pt, (len(body) // 4) if length is None else length) + body
        if cls == "rtp-unknown-ssrc-and-pt":
            return rtp(pt=r.choice([5, 33, 120]), ssrc=r.getrandbits(32) | 1, payload=rb(r.randrange(0, 100))), False
        if cls == "rtp-short":
            return rtp(payload=b"")[: 12], False
        if cls == "rtp-bad-version":
            return rtp(b0=r.choice([0x00, 0x40, 0xC0]), payload=rb(20)), False
        if cls == "rtp-ext-wrong-lengths":
            # one-byte form, ids 1 (mid) and 2 (abs-send-time) with wrong lengths
            el = r.choice([struct.pack("!B", (2 << 4) | r.choice([0, 1, 3, 15])) + rb(r.choice([0, 1, 2, 3])),
                           struct.pack("!B", (1 << 4) | 15) + rb(3), b"\x00\x00\x00\x00", struct.pack("!B", (15 << 4) | 2) + rb(3),
                           struct.pack("!B", (2 << 4) | 2) + rb(1),
                           # every other known extension (ids 3..7) with a length its parser does not expect
                           struct.pack("!B", (r.choice([3, 4, 5, 6, 7]) << 4) | r.choice([0, 1, 2, 3, 7, 15])) + rb(r.choice([0, 1, 2, 4, 16]))])
            el = pad4(el)
            ext = struct.pack("!HH", 0xBEDE, len(el) // 4) + el
            return rtp(b0=0x90, ext=ext, ssrc=r.choice([live, 77]), payload=rb(20)), False
        if cls == "rtp-ext-two-byte":
            if r.random() < 0.5:
                el = pad4(struct.pack("!BB", r.choice([1, 2, 3, 4, 5, 6, 7, 0, 200]), r.choice([0, 0, 1, 3, 4, 200])) + rb(r.choice([0, 2, 3])))
            else:
                # several elements in one block, in any order: mostly of the length their parser expects, some not
                right = {1: 2, 2: 3, 3: 1, 4: 3, 5: 2, 6: 2, 7: 2}
                ids = r.sample(sorted(right), r.choice([2, 3, 7]))
                el = b""
                for i in ids:
                    n = right[i] if r.random() < 0.6 else r.choice([0, 0, 1, 2, 3, 4, 16])
                    el += struct.pack("!BB", i, n) + rb(n)
                el = pad4(el)
            ext = struct.pack("!HH", r.choice([0x1000, 0x100F]), r.choice([len(el) // 4, len(el) // 4, 0])) + el
            return rtp(b0=0x90, ext=ext, ssrc=77, payload=rb(8)), False
        if cls == "rtp-padding-extremes":
            return rtp(b0=0xA0, ssrc=r.choice([77, live]), pt=r.choice([96, 5]), payload=rb(r.randrange(0, 6)) + bytes([r.choice([0, 1, 200, 255])])), False
        if cls == "rtp-csrc-extremes":
            cc = r.choice([1, 15])
            return rtp(b0=0x80 | cc, csrc=rb(4 * r.randrange(0, cc + 1)), ssrc=77, payload=b""), False
        if cls == "rtp-live-absurd-seq":
            return rtp(seq=r.choice([0, 1, 32768, 65535]), payload=b"\x10" + rb(10)), True
        if cls == "rtp-live-absurd-ts":
            return rtp(ts=r.choice([0, 0xFFFFFFFF, 0x80000000]), payload=b"\x10" + rb(10)), True
        if cls == "rtp-live-bad-codec-payload":
            pl = r.choice([b"", b"\x80", b"\x90\x80", b"\xf0\xff\xff", b"\x7c", b"\x7c\x85", b"\x18\x00", b"\x18\x00\x09\x01", b"\x19", b"\x1c\x00",
                           b"\x80\x80", b"\xa0\x80\xff"])
            return rtp(payload=pl), True
        if cls == "rtx-short":
            return rtp(pt=97, ssrc=VIDEO_RTX_SSRC, payload=r.choice([b"", b"\x00", b"\x00\x01"])), True
        # ---- RTCP
        if cls == "rtcp-unknown-ssrc":
            return rtcp(r.choice([200, 201, 205, 206]), 1, struct.pack("!LL", 1234, 5678) + rb(20)), False
        if cls == "rtcp-length-mismatch":
            return rtcp(r.choice([200, 201, 202, 203, 205, 206]), 1, rb(r.choice([0, 4, 8, 24])), length=r.choice([0, 1, 100, 65535])), False
        if cls == "rtcp-count-mismatch":
            return rtcp(r.choice([200, 201, 202, 203]), r.choice([1, 5, 31]), rb(r.choice([4, 8, 28, 52]))), False
        if cls == "rtcp-truncated":
            return rtcp(200, 0, rb(20))[: r.choice([1, 2, 3, 5, 7, 9])], False
        if cls in ("rtcp-remb-bad-fci", "rtcp-remb-live-bad-fci"):
            target = V_SENDER_SSRC if cls.endswith("live-bad-fci") else 4242
            fci = r.choice([b"REMB", b"REMB\x05\x00\x00\x10", b"REMB\xff\xff\xff\xff" + struct.pack("!L", target),
                            b"REMX\x01\x00\x00\x10" + struct.pack("!L", target), b"REM", b"REMB\x02\xfc\x00\x01" + struct.pack("!L", target)])
            return rtcp(206, 15, struct.pack("!LL", 1, 0) + pad4(fci)), changing
        if cls == "rtcp-nack-huge":
            fci = b"".join(struct.pack("!HH", r.randrange(65536), 0xFFFF) for _ in range(r.choice([1, 50, 250])))
            return rtcp(205, 1, struct.pack("!LL", 1, r.choice([4242, V_SENDER_SSRC])) + fci), False
        if cls == "rtcp-sdes-truncated":
            return rtcp(202, r.choice([1, 2]), struct.pack("!L", 99) + r.choice([b"\x01", b"\x01\x40abc", b"\x01\xffxy", b""])
                        + b"\x00" * r.choice([0, 1, 3])), False
        if cls == "rtcp-bye-weird":
            return rtcp(203, r.choice([0, 1, 31]), rb(r.choice([0, 4, 8])) + r.choice([b"", b"\x09reason", b"\xff"])), False
        if cls == "rtcp-unknown-type":
            return rtcp(r.choice([192, 195, 204, 207, 208]), r.randrange(32), rb(4 * r.randrange(0, 8))), False
        if cls == "rtcp-compound-mixed":
            return rtcp(201, 0, struct.pack("!L", 5)) + rtcp(206, 1, struct.pack("!LL", 5, 4242)) + rtcp(202, 1, struct.pack("!L", 5) + b"\x01\x02ab\x00\x00\x00\x00") \
                + r.choice([b"", rb(3), rtcp(203, 1, struct.pack("!L", 4243))]), False
        if cls == "rtcp-feedback-live":
            kind = r.choice(["nack", "pli", "fir", "rr", "bye-nope"])
            if kind == "nack":
                return rtcp(205, 1, struct.pack("!LL", 1, V_SENDER_SSRC) + struct.pack("!HH", r.randrange(65536), r.getrandbits(16))), True
            if kind == "pli":
                return rtcp(206, 1, struct.pack("!LL", 1, V_SENDER_SSRC)), True
            if kind == "fir":
                return rtcp(206, 4, struct.pack("!LL", 1, V_SENDER_SSRC) + rb(r.choice([0, 8]))), True
            return rtcp(201, 1, struct.pack("!L", 1) + struct.pack("!LBBHLLLL", V_SENDER_SSRC, 255, 0xFF, 0xFFFF, 0xFFFFFFFF, 0xFFFFFFFF, 0xFFFFFFFF, 1)), True
        if cls == "rtcp-sr-live":
            return rtcp(200, 0, struct.pack("!L", live) + struct.pack("!QLLL", r.getrandbits(64), r.getrandbits(32), 0xFFFFFFFF, 0xFFFFFFFF)), True
        raise KeyError(cls)

    def build_raw(self, cls, k):
        r = self.rng(k)
        rb = lambda n: bytes(r.randrange(256) for _ in range(n))   # noqa: E731
        c = self.last_cipher or rb(60)
        if cls == "raw-random":
            # (a UDP datagram may be far larger than any MTU: the IP layer fragments and reassembles it)
            return rb(r.choice([1, 2, 13, 100, 1500, 1501, 4000, 20000, 65000]))
        if cls == "raw-empty":
            return b""
        if cls == "raw-one-byte":
            return bytes([r.choice([0, 19, 20, 22, 23, 63, 64, 127, 128, 191, 192, 255])])
        if cls == "raw-truncated-ciphertext":
            return c[: r.randrange(1, len(c))]
        if cls == "raw-bitflipped-ciphertext":
            i = r.randrange(len(c))
            return c[:i] + bytes([c[i] ^ (1 << r.randrange(8))]) + c[i + 1:]
        if cls == "raw-dtls-like":
            return bytes([r.choice([20, 21, 22, 23, 24, 25, 63])]) + b"\xfe\xfd" + rb(r.choice([0, 10, 11, 30, 1600, 20000]))
        if cls == "raw-srtp-like":
            return bytes([r.choice([128, 129, 144, 160, 191]), r.choice([96, 200, 201, 205, 206, 127])]) + \
                rb(r.choice([0, 2, 10, 40, 1400, 1497, 1498, 1499, 1600, 9000, 65000]))
        return b"\x00\x01\x00\x00\x21\x12\xa4\x42" + rb(12)      # a STUN binding request (consumed by the ICE agent)

    async def inject(self, cls, k):
        pair = self.pair
        self.injected += 1
        self.probes["injected"] += 1
        self.probes["inj_" + cls] += 1
        state = "%s/%s/%s" % (self.sctp["V"]._association_state.name if self.sctp_started else "UNSTARTED",
                              "media" if self.media_started else "nomedia", "chan" if "V" in self.chan else "nochan")
        self.note_state(cls.split("-")[0] + "|" + state)
        if cls in RAW:
            data = self.build_raw(cls, k)
            self.log.add("inject", cls, len(data))
            self.fabric.loop.call_soon(self.vconn.inject, data, context=pair.ctx["V"])
            return
        if cls in VIDEO_REAL:
            if not getattr(self, "rv_codec", None) or self.dead:
                self.probes["video_class_without_real_video_stream"] += 1
                return
            self.rv_forge = self.rng(k)       # the sender replaces its next suitable frame
            self.log.add("inject", cls, 0)
            return
        if cls in AUDIO:
            if not getattr(self, "audio_codec", None) or self.dead:
                self.probes["audio_class_without_audio_stream"] += 1
                return
            r = self.rng(k)
            good = self.audio_payloads[r.randrange(len(self.audio_payloads))]
            payload = {"audio-empty-payload": b"",
                       "audio-one-byte-payload": bytes([r.randrange(256)]),
                       "audio-garbage-payload": bytes(r.randrange(256) for _ in range(r.choice([2, 10, 80, 400]))),
                       "audio-truncated-payload": good[:max(1, r.randrange(len(good)))],
                       "audio-oversized-payload": good + bytes(r.randrange(256) for _ in range(r.choice([1, 7, 900])))}[cls]
            # the next packet of the live audio stream, from the authenticated peer, with a nonsensical codec payload
            data = self.audio_packet(payload)
            self.log.add("inject", cls, len(data))
            self.forged[data] = cls
            self.audio_forged = getattr(self, "audio_forged", 0) + 1
            try:
                await self.loop.create_task(pair.dtls["P"]._send_rtp(data), context=pair.ctx["P"])
            except Exception:  # noqa
                self.forged.pop(data, None)
                self.probes["inject_send_failed"] += 1
            return
        if cls == "stream-fragment-reset-reopen":
            await self.inject_reset_reopen(k)
            return
        if cls == "rtp-many-sources":
            await self.inject_many_sources(k)
            return
        if cls in SCTP_VOID or cls in SCTP_CHANGING:
            self._borrowed_tsn = False
            data, changing = self.build_sctp(cls, k)
            if self.spec["property"] == "C08":
                self.c08_monitor(k)
            first_chunk = data[12] if len(data) > 12 else None
            if ((cls in ("error", "init-ack", "cookie-ack") or (cls in ("params-odd-lengths", "truncated-known-chunk", "bundled-void-chunks")
                                                                     and first_chunk == 9))
                    and self.sctp["V"]._association_state.name != "ESTABLISHED"):
                # during association set-up these chunks *are* the handshake (an ERROR ends the attempt, an INIT ACK
                # or COOKIE ACK from the authenticated peer is acted upon): a protocol effect, not a void datagram
                changing = True
            if ((cls in ("data-duplicate-tsn", "sack-old", "sack-weird-gaps", "sack-counts-beyond-body", "forward-tsn-old")
                 or getattr(self, "_borrowed_tsn", False))
                    and self.sctp["V"]._association_state.name != "ESTABLISHED"):
                # built relative to the victim's TSN state, which is not settled before the association is up:
                # by the time it lands the "old" TSN may be ahead, i.e. a lie with a legitimate protocol effect
                changing = True
            if cls == "sack-weird-gaps" and self.cfg.get("victim_sends"):
                # with data of the victim's own in flight a gap block is a claim about that data, not a void datagram
                changing = True
            self.log.add("inject", cls, len(data), changing)
            if changing:
                # (also before start: the datagram is in flight and may land right after the association starts)
                self.sctp_changed = True
            self.forged[data] = cls
            try:
                await self.loop.create_task(pair.dtls["P"]._send_data(data), context=pair.ctx["P"])
            except Exception:  # noqa: the forger's own transport is gone (e.g. the victim's death closed it)
                self.forged.pop(data, None)
                self.probes["inject_send_failed"] += 1
            return
        data, changing = self.build_rtp(cls, k)
        self.log.add("inject", cls, len(data), changing)
        if changing:
            self.media_changed = True
        self.forged[data] = cls
        try:
            await self.loop.create_task(pair.dtls["P"]._send_rtp(data), context=pair.ctx["P"])
        except Exception:  # noqa: libsrtp refuses to protect what is not even shaped like RTP: inject raw instead
            self.forged.pop(data, None)
            self.probes["not_protectable"] += 1
            self.fabric.loop.call_soon(self.vconn.inject, data, context=pair.ctx["V"])

    async def inject_many_sources(self, k):
        """Well-formed media packets of the live payload type from hundreds of sources nobody announced (each with a
        send-time extension, as the live stream's packets have): each is routed to the video receiver by payload type.
        State-changing (the receiver learns the sources), so only 'nothing raises, nothing hangs, the transport stays
        up' is judged - while the live stream goes on and the receiver keeps reporting."""
        pair = self.pair
        if not self.media_started or self.dead:
            self.probes["many_sources_skipped"] += 1
            return
        r = self.rng(k)
        n = r.choice([40, 200, 256, 300, 400])
        base = r.choice([0x20000000, 0xFFFFFF00, 1])
        gap = r.choice([0.0005, 0.002, 0.01])
        self.log.add("inject", "rtp-many-sources", n, True)
        for i in range(n):
            if self.dead:
                break
            ext = struct.pack("!HH", 0xBEDE, 1) + bytes([(2 << 4) | 2]) + bytes(r.randrange(256) for _ in range(3))
            d = struct.pack("!BBHLL", 0x90, 96, r.randrange(65536), r.getrandbits(32), (base + i) & 0xFFFFFFFF) + ext + b"\x10" + bytes(
                r.randrange(256) for _ in range(r.choice([1, 10, 100])))
            if i < 3:
                # (the cost meters are expensive per datagram; these packets are all alike: the first three are metered)
                self.forged[d] = "rtp-many-sources"
            try:
                await self.loop.create_task(pair.dtls["P"]._send_rtp(d), context=pair.ctx["P"])
            except Exception:  # noqa
                self.forged.pop(d, None)
                self.probes["inject_send_failed"] += 1
                return
            await asyncio.sleep(gap)
        self.probes["many_sources_bursts"] += 1
        # (the live stream goes on for a while: feedback that lists the sources seen is due within that time)
        await asyncio.sleep(r.choice([1.5, 3.0]))
        self.check_alive("after rtp-many-sources (%d sources)" % n)

    async def inject_reset_reopen(self, k):
        """A stream's life in four datagrams from the authenticated peer: the first fragment of a message that is never
        finished, a reset of that stream, then the stream used again (DCEP OPEN plus a message).  Nonsensical as a whole,
        every datagram well-formed; the last two are valid traffic and must be processed normally."""
        pair, v, p = self.pair, self.sctp["V"], self.sctp["P"]
        # (a transport that was closed once - by an ABORT, say - has let go of its listeners for good, whatever a later
        #  INIT does to the association underneath: only a transport the application still sees as connected is judged)
        if not self.sctp_started or v._association_state.name != "ESTABLISHED" or v.state != "connected" or self.dead:
            self.probes["reset_reopen_skipped"] += 1
            return
        r = self.rng(k)
        vt = self.vtag()
        sid = 20000 + r.randrange(5000)
        label = ("reopened-%d" % (k % 100000)).encode()

        def data(tsn, sseq, ppid, payload, flags=3):
            return chunk(0, flags, struct.pack("!LHHL", tsn, sid, sseq, ppid) + payload)
        t1 = self.fresh_tsn()
        # the next request number the victim has not seen yet (the peer stack's own counter may lag behind by the TSNs
        # the forger borrowed before the association started), and the peer stack's counter moved past it
        req = (v._reconfig_response_seq + 1) & 0xFFFFFFFF
        p._reconfig_request_seq = (req + 1) & 0xFFFFFFFF
        reset = param(13, struct.pack("!LLL", req, p._reconfig_response_seq, t1) + struct.pack("!H", sid))
        steps = [sctp_packet(vt, [data(t1, 0, 51, b"never finished", flags=2)]),
                 sctp_packet(vt, [chunk(130, 0, reset)]),
                 sctp_packet(vt, [data(self.fresh_tsn(), 0, 50, b"\x03" + struct.pack("!BHLHH", 0, 0, 0, len(label), 0) + label)]),
                 sctp_packet(vt, [data(self.fresh_tsn(), 1, 51, b"hello-" + label)])]
        # (after an earlier state-changing datagram - a lying FORWARD-TSN, say - the victim may rightly regard these TSNs
        #  as out of its window: the sequence is still injected, its outcome only judged on an untouched association)
        touched = self.sctp_changed
        self.sctp_changed = True          # (the data clause about the main channel is not judged after this)
        self.log.add("inject", "stream-fragment-reset-reopen", sum(map(len, steps)), True)
        for d in steps:
            self.forged[d] = "stream-fragment-reset-reopen"
            try:
                await self.loop.create_task(pair.dtls["P"]._send_data(d), context=pair.ctx["P"])
            except Exception:  # noqa
                self.forged.pop(d, None)
                self.probes["inject_send_failed"] += 1
                return
            # (apart in time: the four datagrams are meant to arrive in this order)
            await asyncio.sleep(r.choice([0.02, 0.05, 0.2]))
        lossless = all(self.cfg["p2v"].get(x, 0) == 0 for x in ("drop", "dup", "reorder", "corrupt", "burst_enter", "jitter"))
        if not lossless or touched:
            self.probes["reset_reopen_not_judged"] += 1
            return
        want = label.decode()
        ok = await self.wait(lambda: want in self.reopened and ("hello-" + want) in self.reopened[want], 20.0)
        if not ok and not self.dead and v._association_state.name == "ESTABLISHED" and v.state == "connected" and not self.violations:
            self.check_alive("after stream-fragment-reset-reopen")
            if not self.dead:
                self.violation("C05", "valid-traffic-stalled:stream-used-again-after-a-reset",
                               "stream %d: unfinished fragment, reset, then OPEN %r and a message: channel announced: %s, message "
                               "delivered: %s" % (sid, want, want in self.reopened, ("hello-" + want) in self.reopened.get(want, [])))
        elif ok:
            self.probes["stream_reused_after_reset_ok"] += 1

    def c08_monitor(self, k):
        """C08 wire monitor on a well-formed packet a conforming peer may put on the wire: the victim's parser must
        read it back to the same bytes (only in C08 runs; the packet is judged, not injected)."""
        r = self.rng(k ^ 0xC08)
        # (any port pair: the checksum covers the ports, whatever the association at hand uses)
        ports = r.choice([(5000, 5000), (5000, 5000), (5001, 5002), (r.randrange(1, 65536), r.randrange(1, 65536)), (0, 65535)])
        pkt = wellformed_sctp(r, self.vtag(), ports=ports)
        m = sctpmod
        self.probes["wellformed_roundtrips"] += 1
        try:
            sp, dp, vt, chunks = m.parse_packet(pkt)
            if len(chunks) != 1:
                raise AssertionError("parsed %d chunks from a single-chunk packet" % len(chunks))
            again = m.serialize_packet(sp, dp, vt, chunks[0])
            if again != pkt:
                raise AssertionError("re-serialisation differs at byte %d" % next(
                    (i for i, (a, b) in enumerate(zip(again, pkt)) if a != b), min(len(again), len(pkt))))
            c = chunks[0]
            # the same object changed in place and built again (as when a chunk is re-stamped, a parameter appended to
            # a chunk already sent once, a gap block added): the packet carries the new field values - for every chunk
            # class, every flag value and every payload length / padding case
            names = ("flags", "params", "gaps", "duplicates", "cumulative_tsn", "advertised_rwnd", "streams", "initiate_tag",
                     "outbound_streams", "inbound_streams", "initial_tsn", "tsn", "stream_id", "stream_seq", "protocol",
                     "user_data")

            def snapshot(x):
                out = {}
                for n in names:
                    if hasattr(x, n):
                        v = getattr(x, n)
                        out[n] = [tuple(i) if isinstance(i, (list, tuple)) else i for i in v] if isinstance(v, list) else (
                            bytes(v) if isinstance(v, (bytes, bytearray)) else v)
                if "body" in vars(x):
                    out["body"] = bytes(x.body)
                return out
            rb = lambda n: bytes(r.randrange(256) for _ in range(n))   # noqa: E731
            c.flags = (c.flags ^ r.choice([1, 2, 4])) & 0xFF
            if isinstance(c, m.DataChunk):
                c.stream_seq = (c.stream_seq + 1) & 0xFFFF
                c.user_data = c.user_data + rb(r.choice([0, 1, 2, 3]))
            if isinstance(getattr(c, "params", None), list):
                how = r.choice(["append", "append", "replace", "clear", "pop"])
                if how == "append" or not c.params:
                    c.params.append((r.choice([1, 7, 9, 13, 16, 0x8008, 0xC000]), rb(r.choice([0, 1, 2, 3, 4, 5, 8]))))
                elif how == "replace":
                    c.params[r.randrange(len(c.params))] = (r.choice([1, 7, 9, 13, 0x8008]), rb(r.choice([0, 1, 4, 6])))
                elif how == "clear":
                    c.params.clear()
                else:
                    c.params.pop()
            for lst, make in (("gaps", lambda: (r.randrange(65536), r.randrange(65536))), ("duplicates", lambda: r.getrandbits(32)),
                              ("streams", lambda: (r.randrange(65536), r.randrange(65536)))):
                v = getattr(c, lst, None)
                if isinstance(v, list):
                    if v and r.random() < 0.3:
                        v.pop(r.randrange(len(v)))
                    else:
                        v.append(make())
            for n in ("cumulative_tsn", "initiate_tag", "initial_tsn", "advertised_rwnd"):
                if hasattr(c, n) and r.random() < 0.5:
                    setattr(c, n, (getattr(c, n) + r.choice([1, 0x10000, 0xFFFFFFFF])) & 0xFFFFFFFF)
            if "body" in vars(c) and r.random() < 0.5:
                c.body = bytes(c.body) + rb(r.choice([1, 2, 3, 4]))
            want = snapshot(c)
            c2 = m.parse_packet(m.serialize_packet(sp, dp, vt, c))[3][0]
            got = snapshot(c2)
            if got != want:
                diff = [n for n in want if got.get(n) != want[n]]
                raise AssertionError("a %s changed in place and built again parses back with other %s: %r, not %r" % (
                    type(c).__name__, ",".join(diff), [got.get(n) for n in diff][:2], [want[n] for n in diff][:2]))
            self.probes["chunks_changed_and_rebuilt"] += 1
        except Exception as exc:  # noqa
            self.violation("C08", "well-formed-packet-does-not-round-trip:chunk-type-%d:%s" % (pkt[12], type(exc).__name__),
                           "%s: %r" % (pkt.hex()[:120], exc))

    # -- oracle ----------------------------------------------------------------------------------------
    def openssl_gave_up(self):
        """Diagnosis of the known finding F26: after a damaged copy of a DTLS record (raw class) OpenSSL reports a
        fatal record-layer failure and both SSL objects are dead while the transports still say 'connected'."""
        if not (self.probes.get("inj_raw-bitflipped-ciphertext") or self.probes.get("inj_raw-truncated-ciphertext")
                or self.probes.get("inj_raw-dtls-like")):
            return None
        out = []
        for n in "PV":
            ssl = self.pair.dtls[n]._ssl
            try:
                if ssl is not None and (ssl.get_shutdown() or ssl.get_state_string() == b"error"):
                    out.append("%s: shutdown=%d state=%r" % (n, ssl.get_shutdown(), ssl.get_state_string()))
            except Exception:  # noqa
                pass
        return "; ".join(out) or None

    def check_alive(self, when):
        if self.dead:
            return
        gave_up = self.openssl_gave_up()
        if gave_up:
            self.dead = "openssl"
            self.violation("C05", "dtls-association-dead-after-altered-dtls-record",
                           "%s: after a damaged copy of a DTLS record arrived OpenSSL abandoned the association (%s)" % (when, gave_up))
            return
        v = self.pair.dtls["V"]
        if v.state != "connected":
            exc = None
            t = getattr(v, "_task", None)
            if t is not None and t.done() and not t.cancelled():
                exc = t.exception()
            why = [u for u in self.loop.unhandled if u.get("exc") is not None]
            e = exc or (why[-1]["exc"] if why else None)
            if isinstance(e, ForgedKilled) or any(vv["signature"].startswith("cost-") for vv in self.violations):
                self.dead = "cost"
                return
            tag = exc_tag(e) if e is not None else "?"
            self.dead = tag
            last = [x for x in list(self.log.tail)[-6:] if "'inject'" in x]
            self.violation("C05", "receive-path-died:" + tag, "victim DTLS transport %s %s; last injections: %s; error: %r" % (
                v.state, when, last[-2:], e))
            return
        for name, obj, attr in (("receiver rtcp", getattr(self, "v_receiver", None), "_RTCRtpReceiver__rtcp_task"),
                                ("sender rtp", getattr(self, "v_sender", None), "_RTCRtpSender__rtp_task"),
                                ("sender rtcp", getattr(self, "v_sender", None), "_RTCRtpSender__rtcp_task")):
            t = getattr(obj, attr, None) if obj is not None else None
            if t is not None and t.done() and not t.cancelled() and t.exception() is not None:
                self.dead = "task"
                self.violation("C05", "task-died:%s:%s" % (name.replace(" ", "-"), exc_tag(t.exception())), repr(t.exception()))
                return
        for kind, q in getattr(self, "batons", {}).items():
            if q.thread is not None and not q.thread.is_alive():
                self.dead = "decoder"
                name = self.cfg.get("audio") if kind == "audio" else self.cfg.get("codec")
                self.violation("C05", "decoder-thread-died:%s:%s" % (name, type(q.died).__name__ if q.died else "?"),
                               "%s: the %s decoder thread ended with %r (forged audio packets so far: %d); %d frames were "
                               "offered to it afterwards" % (when, kind, q.died, getattr(self, "audio_forged", 0), q.put_after_death))
                return
        for u in self.loop.unhandled:
            e = u.get("exc")
            if e is not None and exc_tag(e).split("@")[1] != "?":
                self.dead = "unhandled"
                self.violation("C05", "unhandled-exception-in-task:" + exc_tag(e), repr(e))
                return

    async def final_liveness(self):
        """After the last (void) datagram: valid traffic is still processed normally."""
        pair = self.pair
        if self.sctp_started and not self.sctp_changed and "P" in self.chan:
            ok = await self.wait(lambda: self.chan["P"].readyState == "open" and "V" in self.chan, 120.0)
            if not ok:
                self.violation("C05", "valid-traffic-stalled:data-channel-does-not-open",
                               "after only void datagrams the channel is %s" % self.chan["P"].readyState)
                return
            if self.cfg.get("pr"):
                # a partially reliable channel may drop what the network loses: the final round trip is judged once
                # the ordinary faults have stopped
                self.fabric.heal()
                await asyncio.sleep(3.0)
            self.counter += 1
            msg = "final-%d" % self.counter
            pair.ctx["P"].run(self.chan["P"].send, msg)
            pair.ctx["V"].run(self.chan["V"].send, msg + "-back")
            ok = await self.wait(lambda: msg in self.got["V"] and (msg + "-back") in self.got["P"], 700.0)
            if not ok:
                self.violation("C05", "valid-traffic-stalled:data-channel-round-trip",
                               "after only void datagrams a fresh message %s (V got: %s, P got: %s)" % (
                                   msg, msg in self.got["V"], (msg + "-back") in self.got["P"]))
                return
            self.probes["final_data_round_trip"] += 1
        if self.media_started and not self.media_changed:
            n0 = self.frames_tapped
            ok = await self.wait(lambda: self.frames_tapped >= n0 + 5, 60.0)
            if not ok:
                self.violation("C05", "valid-traffic-stalled:no-more-frames-reach-the-decoder",
                               "after only void datagrams: %d frames in 60 s" % (self.frames_tapped - n0))
                return
            self.probes["final_media_flowing"] += 1
        if getattr(self, "audio_codec", None) and not self.dead:
            # genuine audio keeps flowing all along: after whatever was forged it is still decoded
            n0, s0 = self.audio_decoded, self.audio_sent
            await self.wait(lambda: self.audio_decoded >= n0 + 10, 30.0)
            if self.audio_decoded < n0 + 10:
                self.check_alive("after the final round trip")
                if not self.dead:
                    self.violation("C05", "valid-traffic-stalled:audio-no-longer-decoded:%s" % self.cfg.get("audio"),
                                   "%d genuine audio packets sent in the last 30 s, %d frames decoded (%d forged audio packets before)" % (
                                       self.audio_sent - s0, self.audio_decoded - n0, getattr(self, "audio_forged", 0)))
                return
            self.probes["final_audio_decoded"] += 1
        self.check_alive("after the final round trip")

    async def wait(self, pred, bound):
        t_end = self.loop.time() + bound
        while self.loop.time() < t_end:
            if pred():
                return True
            await asyncio.sleep(0.25)
        return pred()

    def config_class(self):
        return "%s/%s" % ("server" if self.cfg["victim_is_sctp_server"] else "client", self.cfg["codec"])

    def nontrivial(self):
        return self.injected > 0

    def sample(self):
        return {"injected": self.injected, "max_cost_lines": getattr(self, "max_cost", 0),
                "max_peak_bytes": getattr(self, "max_mem", 0),
                "max_cpu_ms": [round(getattr(self, "max_cpu", (0.0, None))[0] * 1000, 1), getattr(self, "max_cpu", (0.0, None))[1]],
                "classes": [o["cls"] for o in self.ops if o["op"] == "inject"][:8]}


class CostExceeded(Exception):
    pass


class ForgedKilled(Exception):
    pass


def run(spec):
    return run_world(spec, gen_hostile, HostileWorld)
