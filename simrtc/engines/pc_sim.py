"""pc_sim: two real RTCPeerConnections (real SDP, transceivers, DTLS, SRTP, SCTP,
RTP senders/receivers) joined by SimIceConnection/SimNet and an in-simulation
signalling channel.  Decides C03 (offer/answer over the configuration space),
C14 (JSEP state machine under arbitrary call programs) and C19 (close() at
every scheduler step).
"""

import asyncio
import fractions
import threading
from collections import Counter

from ..seams import setup_import_path

setup_import_path()
import aiortc  # noqa: E402
import aiortc.rtcpeerconnection as pcmod  # noqa: E402
import aiortc.rtcrtpreceiver as rxmod  # noqa: E402
import av  # noqa: E402
from aiortc import RTCConfiguration, RTCPeerConnection, RTCSessionDescription  # noqa: E402
from aiortc.exceptions import InvalidStateError, OperationError  # noqa: E402
from aiortc.mediastreams import MediaStreamError, MediaStreamTrack  # noqa: E402
from aiortc.rtcconfiguration import RTCBundlePolicy  # noqa: E402
from aiortc.rtcrtpsender import RTCRtpSender  # noqa: E402

from .. import fakes, sdpmini  # noqa: E402
from ..net import Profile  # noqa: E402
from .common import exc_tag, run_world  # noqa: E402
from .history_sim import _FakeThreading  # noqa: E402
from .media_sim import MediaBase  # noqa: E402

BUNDLE = {"balanced": RTCBundlePolicy.BALANCED, "max-compat": RTCBundlePolicy.MAX_COMPAT,
          "max-bundle": RTCBundlePolicy.MAX_BUNDLE}
DIRS = ["sendrecv", "sendonly", "recvonly", "inactive"]
REVERSE = {"sendrecv": "sendrecv", "sendonly": "recvonly", "recvonly": "sendonly", "inactive": "inactive", None: None}
MIMES = {"audio": ["audio/opus", "audio/G722", "audio/PCMU", "audio/PCMA"], "video": ["video/VP8", "video/H264"]}


class SimMediaTrack(MediaStreamTrack):
    """Yields pre-encoded packets (the sender then runs the real packetiser)."""

    def __init__(self, kind, serial, limit=None):
        super().__init__()
        self.kind = kind
        self.n = 0
        self.serial = serial
        self.limit = limit       # a finite source (file, recording) ends on its own

    async def recv(self):
        if self.readyState != "live":
            raise MediaStreamError
        if self.limit is not None and self.n >= self.limit:
            self.stop()
            raise MediaStreamError
        await asyncio.sleep(0.02 if self.kind == "audio" else 0.04)
        self.n += 1
        size = 40 if self.kind == "audio" else (300 + (self.n * 977) % 2500)
        pkt = av.Packet(bytes(((self.n * 13 + i * 7 + self.serial) % 255) + 1 for i in range(size)))
        pkt.pts = self.n * (960 if self.kind == "audio" else 3600)
        pkt.time_base = fractions.Fraction(1, 48000 if self.kind == "audio" else 90000)
        return pkt


def gen_items(ch, n):
    items = []
    for _ in range(n):
        kind = ch.choice("cfg", ["audio", "video"])
        how = ch.choice("cfg", ["addTrack", "addTrack", "transceiver_kind", "transceiver_track"])
        it = {"kind": kind, "how": how,
              "direction": "sendrecv" if how == "addTrack" else ch.choice("cfg", DIRS + ["sendrecv"]),
              "prefs": None}
        if ch.chance("cfg", 0.35):
            mimes = MIMES[kind][:]
            # a non-empty ordered subset
            k = 1 + ch.index("cfg", len(mimes))
            sel = []
            for _ in range(k):
                m = mimes.pop(ch.index("cfg", len(mimes)))
                sel.append(m)
            it["prefs"] = {"mimes": sel, "rtx": ch.chance("cfg", 0.5)}
        items.append(it)
    return items


def gen_side(ch, offerer):
    side = {"bundle": ch.choice("cfg", ["balanced", "balanced", "max-compat", "max-bundle"])}
    side["items"] = gen_items(ch, ch.choice("cfg", [0, 1, 1, 2, 2, 3] if offerer else [0, 0, 0, 1, 1, 2]))
    side["dc"] = ch.chance("cfg", 0.6 if offerer else 0.25)
    side["dc_first"] = ch.chance("cfg", 0.3)
    if offerer and not side["items"] and not side["dc"]:
        side["dc"] = True
    return side


def gen_c03(ch, spec):
    cfg = {"world": "c03", "A": gen_side(ch, True), "B": gen_side(ch, False)}
    cfg["sig_delay"] = ch.choice("cfg", [0.0, 0.01, 0.2, 1.5])
    cfg["net_base"] = ch.choice("cfg", [0.001, 0.02, 0.15])
    cfg["sched"] = ch.chance("cfg", 0.7, True)
    cfg["stall_rate"] = ch.choice("cfg", [0.0, 0.0, 0.003])
    cfg["stall_max"] = ch.choice("cfg", [0.01, 0.2])
    # separate configuration: the offer's codec lines as another implementation would order them
    cfg["rtx_last"] = ch.chance("cfg", 0.12)
    cfg["turn"] = fakes.gen_turn(ch, ["A", "B"])
    if ch.chance("cfg", 0.25):
        # the offering application changes a transceiver's direction preference while its offer is out (a hold button
        # pressed between setLocalDescription(offer) and the answer): it counts for the next round, not for this one
        cfg["midround_direction"] = {"idx": ch.index("cfg", 4), "direction": ch.choice("cfg", ["sendrecv", "sendonly", "recvonly", "inactive"])}
    ops = []
    # follow-up negotiations that add media / a data channel, possibly swapping the offering side
    for _ in range(ch.choice("wl", [0, 0, 1, 1, 2])):
        who = ch.choice("wl", ["A", "B"])
        what = ch.choice("wl", ["media", "media", "dc", "direction"])
        # eager: the follow-up starts right away, while ICE / DTLS of the round before may still be connecting
        op = {"op": "renegotiate", "side": who, "add": what, "eager": ch.chance("wl", 0.35)}
        if what == "media":
            op["item"] = gen_items(ch, 1)[0]
        if what == "direction":
            # an already negotiated transceiver changes direction for the next round, possibly after being stopped
            op["idx"] = ch.index("wl", 4)
            op["stop"] = ch.chance("wl", 0.4)
            op["direction"] = "inactive" if op["stop"] else ch.choice("wl", ["sendrecv", "sendonly", "recvonly", "inactive"])
        ops.append(op)
    return cfg, ops


def reorder_rtx_last(text):
    """The same offer as another implementation might write it: in every video section the retransmission
    formats are listed after all media codecs (payload types, parameters and everything else unchanged)."""
    import re as _re
    head, secs = split_sections(text if text.endswith("\r\n") else text + "\r\n")
    out = []
    for sec in secs:
        lines = sec.split("\r\n")
        if not lines[0].startswith("m=video"):
            out.append(sec)
            continue
        parts = lines[0].split(" ")
        fmts = parts[3:]
        rtx = {m.group(1) for ln in lines for m in [_re.match(r"a=rtpmap:(\d+) rtx/", ln)] if m}
        order = [f for f in fmts if f not in rtx] + [f for f in fmts if f in rtx]
        per_pt = {f: [] for f in fmts}
        rest, first_pos = [], None
        for i, ln in enumerate(lines[1:], 1):
            m = _re.match(r"a=(?:rtpmap|fmtp|rtcp-fb):(\d+) ", ln)
            if m and m.group(1) in per_pt:
                per_pt[m.group(1)].append(ln)
                if first_pos is None:
                    first_pos = len(rest)
            else:
                rest.append(ln)
        block = [ln for f in order for ln in per_pt[f]]
        if first_pos is None:
            first_pos = len(rest)
        new_lines = [" ".join(parts[:3] + order)] + rest[:first_pos] + block + rest[first_pos:]
        out.append("\r\n".join(new_lines))
    return join_sections(head, out)


class Endpoint:
    def __init__(self, world, name, side_cfg):
        self.world = world
        self.name = name
        self.cfg = side_cfg
        self.ctx = world.fabric.context(name)
        self.pc = self.ctx.run(RTCPeerConnection, RTCConfiguration(iceServers=[], bundlePolicy=BUNDLE[side_cfg["bundle"]]))
        self.tracks = []
        self.prefs = {}          # transceiver -> set of mimes (lower) or None
        self.channels = []       # RTCDataChannel created locally
        self.remote_channels = []
        self.received = {}       # channel label -> [messages]
        self.remote_tracks = []
        self.events = []
        pc = self.pc

        @pc.on("datachannel")
        def on_dc(ch):
            self.remote_channels.append(ch)
            self.watch(ch)

        @pc.on("track")
        def on_track(track):
            self.remote_tracks.append(track)

        for ev in ("signalingstatechange", "connectionstatechange", "iceconnectionstatechange",
                   "icegatheringstatechange"):
            pc.on(ev, lambda ev=ev: self.events.append(ev))

    def watch(self, ch):
        self.received.setdefault(ch.label, [])
        ch.on("message", lambda m, lab=ch.label: self.received[lab].append(m))
        if self.world.cfg.get("reopen_on_close"):
            # an application that answers the loss of a channel by opening a new one (from a later loop iteration,
            # as an async handler would) - unless it has closed the connection itself
            def on_close():
                self.world.loop.call_soon(self.reopen, context=self.ctx)
            ch.on("close", on_close)

    def reopen(self):
        if self.pc.signalingState == "closed" or getattr(self, "reopened", 0) >= 2 or self.world.user_closed(self.name):
            return
        self.reopened = getattr(self, "reopened", 0) + 1
        try:
            # (already running in this endpoint's context)
            ch = self.pc.createDataChannel("re-%s-%d" % (self.name, self.reopened))
            self.channels.append(ch)
            self.watch(ch)
            self.world.probes["channel_reopened_after_close_event"] += 1
            if self.pc.sctp is not None and self.pc.sctp.state == "closed":
                self.world.probes["channel_created_on_ended_association"] += 1
        except Exception:  # noqa
            pass

    def add_item(self, it):
        pc = self.pc
        w = self.world
        w.track_serial += 1

        def go():
            if it["how"] == "addTrack":
                tr = SimMediaTrack(it["kind"], w.track_serial, w.cfg.get("track_limit"))
                self.tracks.append(tr)
                sender = pc.addTrack(tr)
                t = next(x for x in pc.getTransceivers() if x.sender is sender)
            elif it["how"] == "transceiver_track":
                tr = SimMediaTrack(it["kind"], w.track_serial, w.cfg.get("track_limit"))
                self.tracks.append(tr)
                t = pc.addTransceiver(tr, direction=it["direction"])
            else:
                t = pc.addTransceiver(it["kind"], direction=it["direction"])
            if it.get("prefs"):
                caps = RTCRtpSender.getCapabilities(it["kind"]).codecs
                want = [m.lower() for m in it["prefs"]["mimes"]]
                sel = []
                for m in want:
                    sel += [c for c in caps if c.mimeType.lower() == m]
                if it["prefs"]["rtx"] and it["kind"] == "video":
                    sel += [c for c in caps if c.mimeType.lower() == "video/rtx"]
                t.setCodecPreferences(sel)
                self.prefs[t] = set(want)
            return t
        return self.ctx.run(go)

    def add_channel(self, label):
        ch = self.ctx.run(self.pc.createDataChannel, label)
        self.channels.append(ch)
        self.watch(ch)
        return ch

    def setup(self):
        c = self.cfg
        if c["dc"] and c["dc_first"]:
            self.add_channel("dc-%s-0" % self.name)
        for it in c["items"]:
            self.add_item(it)
        if c["dc"] and not c["dc_first"]:
            self.add_channel("dc-%s-0" % self.name)


class PcWorld(MediaBase):
    engine = "pc_sim"
    decoder_threads = False

    def __init__(self, spec, ch, cfg, ops, **kw):
        super().__init__(spec, ch, cfg, ops, **kw)
        self.cert_state = fakes.install_certificate_pool()
        self.cert_state["i"] = 0
        fakes.SerialHash.install(aiortc.RTCIceTransport)
        aiortc.RTCIceTransport._sim_serial_counter["n"] = 0
        self.track_serial = 0
        base = cfg.get("net_base", 0.01)
        for key in (("A", "B"), ("B", "A")):
            self.fabric.profiles[key] = Profile(base=base)
        if not self.decoder_threads:
            world = self

            class TapQueue:
                def __init__(self, *a, **kw):
                    pass

                def put(self, item):
                    if item is not None:
                        world.probes["frames_to_decoder"] += 1

            class QueueMod:
                Queue = TapQueue

            self.rebind(rxmod, "threading", _FakeThreading)
            self.rebind(rxmod, "queue", QueueMod)
        self.ep = {}

    async def call(self, name, fn, *args):
        """Run `fn(*args)` (a coroutine function) as a task of endpoint `name`; -> (exception or None, value)."""
        async def runner():
            return await fn(*args)
        task = self.loop.create_task(runner(), context=self.ep[name].ctx)
        try:
            return None, await task
        except asyncio.CancelledError:
            raise
        except Exception as exc:  # noqa
            return exc, None

    async def signal(self):
        d = self.cfg.get("sig_delay", 0.0)
        if d:
            await asyncio.sleep(d)

    async def wait_for(self, pred, bound, poll=0.1):
        t_end = self.loop.time() + bound
        while self.loop.time() < t_end:
            if pred():
                return True
            await asyncio.sleep(poll)
        return pred()


# ===========================================================================
# C03
# ===========================================================================
class C03World(PcWorld):
    def expected_empty_intersection(self, offerer, answerer, offer_text):
        """The harness's own view: does some offered m-section share no real codec with the transceiver
        the answerer will match it to?"""
        offer = sdpmini.Sdp(offer_text)
        ans = self.ep[answerer]
        pool = [t for t in ans.pc.getTransceivers() if t.mid is None]
        used = set()
        bymid = {t.mid: t for t in ans.pc.getTransceivers() if t.mid is not None}
        for sec in offer.sections:
            if sec.kind not in ("audio", "video"):
                continue
            offered = {"%s/%s" % (sec.kind, n) for pt, n, c, chn, apt in sec.codecs() if n and n != "rtx"}
            t = bymid.get(sec.mid)
            if t is None:
                t = next((x for x in pool if x.kind == sec.kind and id(x) not in used), None)
                if t is not None:
                    used.add(id(t))
            prefs = ans.prefs.get(t) if t is not None else None
            if prefs is not None and not ({m for m in offered} & prefs):
                return True
        return False

    async def negotiate(self, offerer, answerer, round_no):
        X, Y = self.ep[offerer], self.ep[answerer]
        tag = "round%d" % round_no
        exc, offer = await self.call(offerer, X.pc.createOffer)
        if exc is not None:
            return self.neg_fail(tag, offerer, "createOffer", exc)
        exc, _ = await self.call(offerer, X.pc.setLocalDescription, offer)
        if exc is not None:
            return self.neg_fail(tag, offerer, "setLocalDescription(offer)", exc)
        offer_text = X.pc.localDescription.sdp
        mr = self.cfg.get("midround_direction")
        if mr:
            ts = [t for t in X.pc.getTransceivers() if not t.stopped]
            if ts:
                X.ctx.run(setattr, ts[mr["idx"] % len(ts)], "direction", mr["direction"])
                self.probes["directions_changed_while_an_offer_was_out"] += 1
        if self.cfg.get("rtx_last"):
            munged = reorder_rtx_last(offer_text)
            if munged != offer_text:
                self.probes["offers_with_rtx_listed_last"] += 1
                offer_text = munged
        await self.signal()
        empty = self.expected_empty_intersection(offerer, answerer, offer_text)
        exc, _ = await self.call(answerer, Y.pc.setRemoteDescription, RTCSessionDescription(sdp=offer_text, type="offer"))
        if exc is not None:
            if isinstance(exc, OperationError) and empty:
                self.exempt["no_common_codec_expected_operation_error"] += 1
                return "no-common-codec"
            return self.neg_fail(tag, answerer, "setRemoteDescription(offer)", exc)
        if empty:
            self.violation("C03", "offer-without-common-codec-accepted", "%s: the answerer's preferences share no codec "
                           "with an offered section, yet setRemoteDescription succeeded" % tag)
            return "bad"
        exc, answer = await self.call(answerer, Y.pc.createAnswer)
        if exc is not None:
            return self.neg_fail(tag, answerer, "createAnswer", exc)
        exc, _ = await self.call(answerer, Y.pc.setLocalDescription, answer)
        if exc is not None:
            return self.neg_fail(tag, answerer, "setLocalDescription(answer)", exc)
        answer_text = Y.pc.localDescription.sdp
        await self.signal()
        exc, _ = await self.call(offerer, X.pc.setRemoteDescription, RTCSessionDescription(sdp=answer_text, type="answer"))
        if exc is not None:
            return self.neg_fail(tag, offerer, "setRemoteDescription(answer)", exc)
        self.probes["negotiations_completed"] += 1
        # --- oracle on the two texts and the resulting states
        for n in (offerer, answerer):
            if self.ep[n].pc.signalingState != "stable":
                self.violation("C03", "not-stable-after-exchange", "%s: %s is %s" % (tag, n, self.ep[n].pc.signalingState))
        for sig, detail in sdpmini.compare_answer(offer_text, answer_text):
            self.violation("C03", sig, "%s (offerer %s): %s" % (tag, offerer, detail))
        ta = {t.mid: t for t in X.pc.getTransceivers() if t.mid is not None}
        tb = {t.mid: t for t in Y.pc.getTransceivers() if t.mid is not None}
        o = sdpmini.Sdp(offer_text)
        for sec in o.sections:
            if sec.kind not in ("audio", "video"):
                continue
            a, b = ta.get(sec.mid), tb.get(sec.mid)
            if a is None or b is None:
                self.violation("C03", "negotiated-section-without-transceiver", "%s mid=%s" % (tag, sec.mid))
                continue
            if a.currentDirection is None or REVERSE[a.currentDirection] != b.currentDirection:
                self.violation("C03", "current-directions-not-complementary", "%s mid=%s: %s has %s, %s has %s" % (
                    tag, sec.mid, offerer, a.currentDirection, answerer, b.currentDirection))
        self.log.add("negotiated", tag, offerer, len(o.sections), tuple(s.kind for s in o.sections))
        self.note_state("%s|off=%s|%s|%s>%s" % (tag, offerer, ",".join(s.kind[0] + (s.direction or "-")[:5] for s in o.sections),
                                             self.cfg[offerer]["bundle"], self.cfg[answerer]["bundle"]))
        return "ok"

    def neg_fail(self, tag, who, call, exc):
        self.violation("C03", "%s-raised:%s" % (call, exc_tag(exc)), "%s: %s on %s raised %r" % (tag, call, who, exc))
        return "raised"

    def negotiated_transports_connected(self, n):
        """Diagnosis for the known finding: every transport that carries a negotiated section is
        connected, only a transceiver no description mentions keeps the aggregate at 'connecting'."""
        pc = self.ep[n].pc
        used = {t.receiver.transport for t in pc.getTransceivers() if t.mid is not None}
        if pc.sctp is not None and pc.sctp.mid is not None:
            used.add(pc.sctp.transport)
        idle = [t for t in pc.getTransceivers() if t.mid is None and t.receiver.transport not in used]
        if pc.sctp is not None and pc.sctp.mid is None and pc.sctp.transport not in used:
            idle.append(pc.sctp)
        return bool(used) and bool(idle) and all(d.state == "connected" and d.transport.state == "completed" for d in used)

    async def check_connected(self, tag):
        eps = self.ep

        def up(n):
            return eps[n].pc.connectionState == "connected" or self.negotiated_transports_connected(n)

        ok = await self.wait_for(lambda: all(up(n) for n in "AB"), 60.0)
        if not ok:
            self.violation("C03", "negotiated-session-does-not-connect",
                           "%s: connectionState A=%s B=%s ice A=%s B=%s" % (
                               tag, eps["A"].pc.connectionState, eps["B"].pc.connectionState,
                               eps["A"].pc.iceConnectionState, eps["B"].pc.iceConnectionState))
            return False
        held = [n for n in "AB" if eps[n].pc.connectionState != "connected"]
        if held:
            await asyncio.sleep(2.0)
            held = [n for n in "AB" if eps[n].pc.connectionState != "connected"]
        if held:
            self.violation("C03", "negotiated-session-does-not-connect:transport-of-a-section-no-description-mentions-holds-state-at-connecting",
                           "%s: %s reports connectionState=%s / iceConnectionState=%s although every negotiated transport is "
                           "connected; it owns a transceiver (or data-channel transport) that no description mentions" % (
                               tag, held, [eps[n].pc.connectionState for n in held], [eps[n].pc.iceConnectionState for n in held]))
        self.probes["connected"] += 1
        # every negotiated data channel opens and carries messages
        # (a channel created on a side whose descriptions carry no application section yet is not negotiated)
        chans = [(n, c) for n in "AB" for c in eps[n].channels
                 if eps[n].pc.sctp is not None and eps[n].pc.sctp.mid is not None]
        if chans:
            ok = await self.wait_for(lambda: all(c.readyState == "open" for _, c in chans), 60.0)
            if not ok:
                self.violation("C03", "data-channel-does-not-open", "%s: %r" % (
                    tag, [(n, c.label, c.readyState) for n, c in chans]))
                return False
            for n, c in chans:
                peer = "B" if n == "A" else "A"
                msg = "ping %s %s" % (c.label, tag)
                eps[n].ctx.run(c.send, msg)
                ok = await self.wait_for(lambda: msg in eps[peer].received.get(c.label, []), 60.0)
                if not ok:
                    self.violation("C03", "data-channel-carries-no-message", "%s: %s from %s never arrived" % (tag, c.label, n))
                    return False
                rc = next((x for x in eps[peer].remote_channels if x.label == c.label), None)
                if rc is None:
                    self.violation("C03", "data-channel-not-announced-to-peer", "%s: %s" % (tag, c.label))
                    return False
                back = "pong %s %s" % (c.label, tag)
                eps[peer].ctx.run(rc.send, back)
                ok = await self.wait_for(lambda: back in eps[n].received.get(c.label, []), 60.0)
                if not ok:
                    self.violation("C03", "data-channel-carries-no-message", "%s: reply on %s never arrived" % (tag, c.label))
                    return False
            self.probes["data_channels_verified"] += len(chans)
        return True

    async def main(self):
        cfg = self.cfg
        for n in "AB":
            self.ep[n] = Endpoint(self, n, cfg[n])
        try:
            for n in "AB":
                self.ep[n].setup()
        except Exception as exc:  # noqa
            self.violation("C03", "setup-raised:" + exc_tag(exc), repr(exc))
            return
        res = await self.negotiate("A", "B", 1)
        if res != "ok" or self.violations:
            return
        eager = bool(self.ops and self.ops[0].get("eager"))
        if eager:
            self.probes["eager_renegotiations"] += 1
        elif not await self.check_connected("round1"):
            return
        round_no = 1
        for i, op in enumerate(self.ops):
            round_no += 1
            who = op["side"]
            other = "B" if who == "A" else "A"
            try:
                if op["add"] == "dc":
                    self.ep[who].add_channel("dc-%s-%d" % (who, round_no))
                elif op["add"] == "direction":
                    ts = [t for t in self.ep[who].pc.getTransceivers() if t.mid is not None]
                    if not ts:
                        continue
                    t = ts[op["idx"] % len(ts)]
                    if op.get("stop"):
                        exc, _ = await self.call(who, t.stop)
                        if exc is not None:
                            self.violation("C03", "transceiver-stop-raised:" + exc_tag(exc), repr(exc))
                            return
                        self.probes["transceivers_stopped_between_rounds"] += 1
                    self.ep[who].ctx.run(setattr, t, "direction", op["direction"])
                    self.probes["directions_changed_between_rounds"] += 1
                else:
                    self.ep[who].add_item(op["item"])
            except Exception as exc:  # noqa
                self.violation("C03", "setup-raised:" + exc_tag(exc), repr(exc))
                return
            res = await self.negotiate(who, other, round_no)
            if res != "ok" or self.violations:
                return
            self.probes["renegotiations"] += 1
            if who == "B":
                self.probes["offering_side_swapped"] += 1
            nxt = self.ops[i + 1] if i + 1 < len(self.ops) else None
            if nxt is not None and nxt.get("eager"):
                self.probes["eager_renegotiations"] += 1
                continue
            if not await self.check_connected("round%d" % round_no):
                return
        self.link_faults(self.fabric.links)

    def config_class(self):
        c = self.cfg
        return "%s/%s/%d+%d%s%s%s" % (c["A"]["bundle"], c["B"]["bundle"], len(c["A"]["items"]), len(c["B"]["items"]),
                                      "+dcA" if c["A"]["dc"] else "", "+dcB" if c["B"]["dc"] else "",
                                      "+rtx-last" if c.get("rtx_last") else "")

    def nontrivial(self):
        return self.probes.get("negotiations_completed", 0) > 0

    def sample(self):
        return {"negotiations": self.probes.get("negotiations_completed", 0), "connected": self.probes.get("connected", 0),
                "data_channels_verified": self.probes.get("data_channels_verified", 0)}


def run_c03(spec):
    return run_world(spec, gen_c03, C03World)


# ===========================================================================
# C14: JSEP state machine under arbitrary call programs
# ===========================================================================
C14_OPS = ["createOffer", "createOffer", "createAnswer", "setLocal:offer", "setLocal:offer", "setLocal:offer-stale",
           "setLocal:answer", "setLocal:answer", "setLocal:answer-stale", "setLocal:answer-mismatched", "setLocal:implicit",
           "setRemote:offer", "setRemote:offer", "setRemote:offer", "setRemote:answer", "setRemote:answer",
           "setRemote:mismatched", "setRemote:defective-offer", "setRemote:defective-answer", "close", "add-media"]
DEFECTS = ["no-ufrag", "no-pwd", "no-rtcp-mux", "answer-actpass"]


def gen_c14(ch, spec):
    cfg = {"world": "c14", "layout": ch.choice("cfg", ["audio+dc", "audio", "dc", "video+audio+dc"]),
           "bundle": ch.choice("cfg", ["balanced", "max-bundle", "max-compat"]),
           "sig_delay": 0.0, "net_base": ch.choice("cfg", [0.001, 0.05]),
           "sched": ch.chance("cfg", 0.7, True), "stall_rate": 0.0, "stall_max": 0.0}
    n = ch.choice("wl", [3, 5, 8, 12])
    ops = []
    for _ in range(n):
        name = ch.choice("wl", C14_OPS)
        op = {"op": name, "side": ch.choice("wl", ["A", "B"]), "dt": ch.choice("wl", [0.0, 0.0, 0.01, 0.5, 5.0])}
        if "defective" in name:
            op["defect"] = ch.choice("wl", DEFECTS)
            op["where"] = ch.choice("wl", ["all", "all", "first", "last", "last"])
        if name == "add-media":
            op["kind"] = ch.choice("wl", ["audio", "video"])
        if "mismatched" in name:
            op["how"] = ch.choice("wl", ["drop-section", "rename-mid", "extra-section"])
        if name == "close" and ch.chance("wl", 0.6):
            continue        # keep closes rare so that programs get somewhere
        ops.append(op)
    if ch.chance("wl", 0.25):
        # two negotiation calls on one connection that overlap: the second is made while the first is suspended
        # (gathering candidates, adding remote candidates) - what glare looks like to a connection
        for _ in range(ch.choice("wl", [1, 1, 2])):
            ops.insert(ch.index("wl", len(ops) + 1),
                       {"op": "overlap", "side": ch.choice("wl", ["A", "B"]), "dt": ch.choice("wl", [0.0, 0.01, 0.5]),
                        "first": ch.choice("wl", ["setLocal:offer", "setRemote:offer", "setLocal:implicit", "setLocal:offer",
                                                  "setRemote:offer", "setLocal:implicit", "close"]),
                        "second": ch.choice("wl", ["setLocal:offer", "setRemote:offer", "setLocal:implicit", "createAnswer",
                                                   "createOffer", "close"]),
                        "after": ch.choice("wl", [1, 1, 2, 5])})
    # a conversation skeleton in a share of runs, so that deep states are reached
    if ch.chance("wl", 0.5):
        a, b = ch.choice("wl", [("A", "B"), ("B", "A")])
        skel = [{"op": "createOffer", "side": a, "dt": 0.0}, {"op": "setLocal:offer", "side": a, "dt": 0.0},
                {"op": "setRemote:offer", "side": b, "dt": 0.0}, {"op": "createAnswer", "side": b, "dt": 0.0},
                {"op": "setLocal:answer", "side": b, "dt": 0.0}, {"op": "setRemote:answer", "side": a, "dt": 0.0}]
        pos = 0
        for s in skel:
            pos = pos + ch.index("wl", max(1, len(ops) - pos + 1))
            ops.insert(min(pos, len(ops)), s)
            pos += 1
        if ch.chance("wl", 0.5):
            # a second conversation, offered by the former answerer, optionally after it added media
            tail = []
            if ch.chance("wl", 0.6):
                tail.append({"op": "add-media", "side": b, "kind": ch.choice("wl", ["audio", "video"]), "dt": 0.0})
            tail += [{"op": "createOffer", "side": b, "dt": 0.0}, {"op": "setLocal:offer", "side": b, "dt": 0.0},
                     {"op": "setRemote:offer", "side": a, "dt": 0.0}, {"op": "createAnswer", "side": a, "dt": 0.0},
                     {"op": ch.choice("wl", ["setLocal:answer", "setLocal:answer", "setLocal:answer-mismatched"]), "side": a,
                      "dt": 0.0, "how": "drop-section"},
                     {"op": "setRemote:answer", "side": b, "dt": 0.0}]
            ops += tail
    return cfg, ops


def reflect_answer(offer_text):
    """An answer that mirrors an offer section by section (same codecs, mids, BUNDLE), with a definite role."""
    return offer_text.replace("a=setup:actpass", "a=setup:active")


def split_sections(text):
    head, *rest = text.split("\r\nm=")
    return head, ["m=" + r for r in rest]


def join_sections(head, secs):
    return head + "".join("\r\n" + s for s in secs)


def mismatch(text, how):
    head, secs = split_sections(text)
    if how == "drop-section" and len(secs) >= 2:
        secs = secs[:-1]
    elif how == "extra-section":
        secs = secs + [secs[-1].replace("a=mid:", "a=mid:9")]
    else:
        secs = [secs[0].replace("a=mid:", "a=mid:7")] + secs[1:]
    return join_sections(head, secs)


def make_defective(text, defect, where="all"):
    """The defect in every media section, or only in the first / last one."""
    import re as _re

    def spoil(t):
        if defect == "no-ufrag":
            return _re.sub(r"a=ice-ufrag:[^\r\n]*\r\n", "", t)
        if defect == "no-pwd":
            return _re.sub(r"a=ice-pwd:[^\r\n]*\r\n", "", t)
        if defect == "no-rtcp-mux":
            return t.replace("a=rtcp-mux\r\n", "")
        return t.replace("a=setup:active", "a=setup:actpass").replace("a=setup:passive", "a=setup:actpass")
    if where == "all":
        return spoil(text)
    head, secs = split_sections(text + "\r\n" if not text.endswith("\r\n") else text)
    if not secs:
        return text
    if defect == "no-rtcp-mux":
        idx = [i for i, x in enumerate(secs) if x.startswith(("m=audio", "m=video"))]
        if not idx:
            return text
        k = idx[0] if where == "first" else idx[-1]
    else:
        k = 0 if where == "first" else len(secs) - 1
    secs[k] = spoil(secs[k])
    return join_sections(head, secs)


class C14World(PcWorld):
    def snapshot(self, pc):
        ld, rd = pc.localDescription, pc.remoteDescription
        return (pc.signalingState, (ld.type, ld.sdp) if ld else None, (rd.type, rd.sdp) if rd else None)

    async def main(self):
        cfg = self.cfg
        side_cfg = {"bundle": cfg["bundle"], "items": [], "dc": "dc" in cfg["layout"], "dc_first": False}
        for kind in ("video", "audio"):
            if kind in cfg["layout"]:
                side_cfg["items"].append({"kind": kind, "how": "transceiver_kind", "direction": "sendrecv", "prefs": None})
        self.model = {}
        self.fresh_offer = {"A": None, "B": None}     # (text) created since the last state change
        self.fresh_answer = {"A": None, "B": None}
        self.old_offers = {"A": [], "B": []}
        self.old_answers = {"A": [], "B": []}
        for n in "AB":
            self.ep[n] = Endpoint(self, n, side_cfg)
            self.ep[n].setup()
            self.model[n] = "stable"
        # every change of signalingState, looked at after every scheduler step, is an edge of the JSEP machine
        self.seen_state = {n: "stable" for n in "AB"}
        self.loop.step_hook = self.watch_states
        for op in self.ops:
            if op.get("dt"):
                await asyncio.sleep(op["dt"])
            if op["op"] == "overlap":
                await self.overlap(op)
            else:
                await self.step(op)
            if self.violations:
                break
        self.loop.step_hook = None
        self.link_faults(self.fabric.links)

    def media_sections(self, text):
        return len(split_sections(text)[1])

    JSEP_EDGES = {("stable", "have-local-offer"), ("stable", "have-remote-offer"), ("have-local-offer", "stable"),
                  ("have-remote-offer", "stable")}

    def watch_states(self):
        for n in "AB":
            ep = self.ep.get(n)
            if ep is None:
                continue
            cur, prev = ep.pc.signalingState, self.seen_state[n]
            if cur != prev:
                self.seen_state[n] = cur
                self.probes["signaling_transitions"] += 1
                if cur != "closed" and (prev, cur) not in self.JSEP_EDGES and not self.violations:
                    self.violation("C14", "signalingState-moved-along-no-JSEP-edge:%s>%s" % (prev, cur),
                                   "%s: signalingState went from %s to %s" % (n, prev, cur))

    def overlap_call(self, n, kind):
        """-> coroutine function for one leg of an overlap, or None if the harness has no input for it."""
        pc = self.ep[n].pc
        peer = "B" if n == "A" else "A"
        ppc = self.ep[peer].pc
        if kind == "createOffer":
            return pc.createOffer
        if kind == "createAnswer":
            return pc.createAnswer
        if kind == "close":
            return pc.close
        if kind == "setLocal:implicit":
            return pc.setLocalDescription
        if kind == "setLocal:offer":
            text = self.fresh_offer[n]
            if text is None:
                return None
            return lambda: pc.setLocalDescription(RTCSessionDescription(sdp=text, type="offer"))
        if kind == "setRemote:offer":
            text = None
            if ppc.signalingState == "have-local-offer" and ppc.localDescription is not None:
                text = ppc.localDescription.sdp
            elif self.fresh_offer[peer] is not None:
                text = self.fresh_offer[peer]
            if text is None:
                return None
            cur = pc.remoteDescription or pc.localDescription
            if cur is not None:
                have = [(x.kind, x.mid) for x in sdpmini.Sdp(cur.sdp).sections]
                offered = [(x.kind, x.mid) for x in sdpmini.Sdp(text).sections]
                if offered[:len(have)] != have:
                    return None
            return lambda: pc.setRemoteDescription(RTCSessionDescription(sdp=text, type="offer"))
        return None

    async def overlap(self, op):
        """Two calls on one connection, the second made while the first is suspended.  Nothing is assumed about which
        of them wins: each must return or raise InvalidStateError / ValueError, signalingState must move along JSEP
        edges only (watch_states), and the harness re-reads its model from the connection afterwards."""
        n = op["side"]
        pc = self.ep[n].pc
        if pc.signalingState == "closed" or self.model[n] == "closed":
            return self.skip(op)
        if op["first"] == "setLocal:implicit" and op["second"] == "setLocal:offer":
            # the implicit call creates an offer of its own: the one created earlier is no longer the connection's
            # latest offer, and applying it would not be a call an application may make
            return self.skip(op)
        first, second = self.overlap_call(n, op["first"]), self.overlap_call(n, op["second"])
        if first is None or second is None:
            return self.skip(op)

        async def run(fn):
            return await fn()
        descs = tuple(d.sdp if d is not None else None for d in (pc.localDescription, pc.remoteDescription))
        t1 = self.loop.create_task(run(first), context=self.ep[n].ctx)
        for _ in range(op.get("after", 1)):
            await asyncio.sleep(0)
        overlapped = not t1.done()
        exc2, _ = await self.call(n, second)
        try:
            await t1
            exc1 = None
        except asyncio.CancelledError:
            raise
        except Exception as exc:  # noqa
            exc1 = exc
        self.probes["overlaps"] += 1
        if overlapped:
            self.probes["overlaps_second_call_made_while_first_suspended"] += 1
        self.log.add("overlap", n, op["first"], op["second"], overlapped, type(exc1).__name__, type(exc2).__name__, pc.signalingState)
        for which, exc in (("first", exc1), ("second", exc2)):
            if exc is not None and type(exc).__name__ not in ("InvalidStateError", "ValueError", "OperationError"):
                self.violation("C14", "overlapping-call-raised:%s" % exc_tag(exc), "%s %s of %s/%s: %r" % (
                    n, which, op["first"], op["second"], exc))
                return
        if op["first"] == "close":
            # a negotiation call made once close() has been called - whether or not close() has finished taking the
            # transports down - is a call after close: InvalidStateError, nothing changed, closed for good
            self.probes["overlaps_close_first"] += 1
            if overlapped:
                self.probes["overlaps_call_made_while_close_suspended"] += 1
            after = tuple(d.sdp if d is not None else None for d in (pc.localDescription, pc.remoteDescription))
            if op["second"] != "close" and (type(exc2).__name__ != "InvalidStateError" or after != descs
                                            or pc.signalingState != "closed") and not self.violations:
                self.violation("C14", "negotiation-accepted-after-close-was-called:%s" % op["second"],
                               "%s: %s made %s close() returned: %s; signalingState %s; descriptions %s" % (
                                   n, op["second"], "before" if overlapped else "after", type(exc2).__name__ if exc2 else "returned",
                                   pc.signalingState, "changed" if after != descs else "unchanged"))
                return
        if op["second"] == "close" and exc2 is None:
            self.probes["overlaps_with_close"] += 1
            if pc.signalingState != "closed" and not self.violations:
                self.violation("C14", "closed-is-not-absorbing:overlapping-%s" % op["first"],
                               "%s: close() returned while %s was in progress; signalingState ended as %s" % (
                                   n, op["first"], pc.signalingState))
                return
        # resynchronise the harness's model with what the connection decided
        self.model[n] = pc.signalingState
        self.fresh_offer[n] = None
        self.fresh_answer[n] = None
        if getattr(self, "pending_offer", None):
            self.pending_offer.pop(n, None)

    async def step(self, op):
        n = op["side"]
        peer = "B" if n == "A" else "A"
        pc = self.ep[n].pc
        st = self.model[n]
        name = op["op"]
        before = self.snapshot(pc)
        expect = None            # "ok" | set of acceptable exception names
        new_state = st
        call = None
        self._applied_text = None
        desc_note = ""
        if name == "createOffer":
            expect = "ok" if st != "closed" else {"InvalidStateError"}
            call = pc.createOffer
        elif name == "createAnswer":
            expect = "ok" if st == "have-remote-offer" else {"InvalidStateError"}
            call = pc.createAnswer
        elif name == "close":
            expect, new_state, call = "ok", "closed", pc.close
        elif name == "add-media":
            if st != "stable" or len(pc.getTransceivers()) >= 4:
                return self.skip(op)
            try:
                self.ep[n].add_item({"kind": op.get("kind", "audio"), "how": "transceiver_kind", "direction": "sendrecv", "prefs": None})
                self.probes["media_added"] += 1
            except Exception as exc:  # noqa
                self.violation("C14", "addTransceiver-raised:" + exc_tag(exc), repr(exc))
            return
        elif name.startswith("setLocal:"):
            kind = name.split(":")[1]
            if kind == "implicit":
                if st == "closed":
                    expect = {"InvalidStateError"}
                elif st == "have-remote-offer":
                    expect, new_state = "ok", "stable"
                else:
                    expect, new_state = "ok", "have-local-offer"
                call = lambda: pc.setLocalDescription()   # noqa: E731
            elif kind.startswith("offer"):
                legal = st in ("stable", "have-local-offer")
                if kind == "offer":
                    text = self.fresh_offer[n]
                    if text is None:
                        return self.skip(op)
                else:
                    # a stale offer is only a clean probe when the state already forbids an offer
                    if legal or not self.old_offers[n]:
                        return self.skip(op)
                    text = self.old_offers[n][0]
                expect, new_state = ("ok", "have-local-offer") if legal else ({"InvalidStateError"}, st)
                call = lambda: pc.setLocalDescription(RTCSessionDescription(sdp=text, type="offer"))   # noqa: E731
            else:
                legal = st == "have-remote-offer"
                if kind == "answer":
                    text = self.fresh_answer[n]
                    if text is None:
                        return self.skip(op)
                elif kind == "answer-stale":
                    pool = self.old_answers[n] or ([reflect_answer(self.old_offers[peer][0])] if self.old_offers[peer] else [])
                    if legal or not pool:
                        return self.skip(op)
                    text = pool[0]
                else:
                    if not legal or self.fresh_answer[n] is None:
                        return self.skip(op)
                    text = mismatch(self.fresh_answer[n], op.get("how", "rename-mid"))
                    desc_note = "mismatched"
                if desc_note == "mismatched":
                    expect = {"ValueError"}
                else:
                    expect, new_state = ("ok", "stable") if legal else ({"InvalidStateError"}, st)
                call = lambda: pc.setLocalDescription(RTCSessionDescription(sdp=text, type="answer"))   # noqa: E731
        elif name.startswith("setRemote:"):
            kind = name.split(":")[1]
            ppc = self.ep[peer].pc
            if kind in ("offer", "defective-offer"):
                legal = st in ("stable", "have-remote-offer")
                text = None
                if self.model[peer] == "have-local-offer" and ppc.localDescription is not None:
                    text = ppc.localDescription.sdp
                elif self.fresh_offer[peer] is not None:
                    text = self.fresh_offer[peer]
                if text is None:
                    return self.skip(op)
                # the peer's sections must be the ones this side already has (same layouts by construction);
                # a shorter re-offer than the established session is not a negotiable input
                cur = pc.remoteDescription or pc.localDescription
                if cur is not None:
                    # the offer must continue the session this side already has (same sections, same mids, possibly
                    # more): with reflected answers the two peers' histories can differ, and an offer from a peer
                    # with another history is not a negotiable input
                    have = [(x.kind, x.mid) for x in sdpmini.Sdp(cur.sdp).sections]
                    offered = [(x.kind, x.mid) for x in sdpmini.Sdp(text).sections]
                    if offered[:len(have)] != have:
                        return self.skip(op)
                if kind == "defective-offer":
                    if op["defect"] == "answer-actpass":
                        return self.skip(op)
                    text2 = make_defective(text, op["defect"], op.get("where", "all"))
                    if text2 == text:
                        return self.skip(op)
                    text = text2
                    expect = {"ValueError"} if legal else {"ValueError", "InvalidStateError"}
                else:
                    expect, new_state = ("ok", "have-remote-offer") if legal else ({"InvalidStateError"}, st)
                self._applied_text = text
                call = lambda: pc.setRemoteDescription(RTCSessionDescription(sdp=text, type="offer"))   # noqa: E731
            else:
                legal = st == "have-local-offer"
                src = None
                if pc.localDescription is not None and pc.localDescription.type == "offer":
                    src = pc.localDescription.sdp
                elif self.old_offers[n]:
                    src = self.old_offers[n][-1]
                if src is None:
                    return self.skip(op)
                text = reflect_answer(src)
                if kind == "mismatched":
                    if self.media_sections(text) < 1:
                        return self.skip(op)
                    text = mismatch(text, op.get("how", "rename-mid"))
                    expect = {"ValueError"} if legal else {"ValueError", "InvalidStateError"}
                elif kind == "defective-answer":
                    text2 = make_defective(text, op["defect"], op.get("where", "all"))
                    if text2 == text:
                        return self.skip(op)
                    text = text2
                    expect = {"ValueError"} if legal else {"ValueError", "InvalidStateError"}
                else:
                    expect, new_state = ("ok", "stable") if legal else ({"InvalidStateError"}, st)
                call = lambda: pc.setRemoteDescription(RTCSessionDescription(sdp=text, type="answer"))   # noqa: E731
        if call is None:
            return self.skip(op)
        exc, value = await self.call(n, call)
        got = "ok" if exc is None else type(exc).__name__
        self.log.add("call", n, name, st, got)
        self.probes["calls"] += 1
        self.probes["calls_in_" + st] += 1
        self.note_state("%s|%s" % (self.model["A"], self.model["B"]))
        after = self.snapshot(pc)
        if expect == "ok":
            if exc is not None:
                self.violation("C14", "legal-call-raised:%s:%s:%s" % (name, st, exc_tag(exc)),
                               "%s %s in state %s raised %r" % (n, name, st, exc))
                return
            self.model[n] = new_state
            self.after_accept(n, name, st, new_state)
            if pc.signalingState != new_state:
                self.violation("C14", "wrong-state-after-legal-call:%s:%s" % (name, st),
                               "%s: signalingState %s, the JSEP table says %s" % (n, pc.signalingState, new_state))
                return
            if name == "createOffer":
                self.fresh_offer[n] = value.sdp
                self.old_offers[n].append(value.sdp)
            elif name == "createAnswer":
                self.fresh_answer[n] = value.sdp
                self.old_answers[n].append(value.sdp)
            if new_state != st:
                self.fresh_offer[n] = None
                self.fresh_answer[n] = None
            self.probes["legal_calls"] += 1
            return
        # an illegal / mismatched / defective call
        self.probes["illegal_calls"] += 1
        if exc is None:
            self.violation("C14", "illegal-call-accepted:%s:%s" % (name + ("/" + op.get("defect", op.get("how", "")) if
                                                                          ("defect" in op or "how" in op) else ""), st),
                           "%s %s in state %s succeeded, expected %s" % (n, name, st, sorted(expect)))
            return
        if got not in expect:
            self.violation("C14", "illegal-call-raised-wrong-error:%s:%s:%s" % (name, st, got),
                           "%s %s in state %s raised %r, expected %s" % (n, name, st, exc, sorted(expect)))
            return
        self.probes["rejected_" + got] += 1
        if after != before:
            which = [w for w, a, b in zip(("signalingState", "localDescription", "remoteDescription"), before, after) if a != b]
            self.violation("C14", "rejected-call-had-side-effects:%s:%s:%s" % (name, st, ",".join(which)),
                           "%s %s in state %s raised %s but changed %s" % (n, name, st, got, which))

    def after_accept(self, n, name, st, new_state):
        """An accepted answer must mirror the offer that was pending (the statement: one that does not raises ValueError)."""
        pc = self.ep[n].pc
        pend = getattr(self, "pending_offer", None)
        if pend is None:
            pend = self.pending_offer = {}
        if not name.startswith("set"):
            return                                  # createOffer / createAnswer set nothing
        if new_state == "have-local-offer" and pc.localDescription is not None:
            pend[n] = pc.localDescription.sdp
        elif new_state == "have-remote-offer" and pc.remoteDescription is not None:
            # the text this very call applied (recorded by apply() just before the call)
            pend[n] = self._applied_text or pc.remoteDescription.sdp
            # an answer created for the offer that was pending before is not an answer to this one
            self.fresh_answer[n] = None
        elif new_state == "stable" and st in ("have-local-offer", "have-remote-offer") and n in pend:
            ans = pc.remoteDescription if st == "have-local-offer" else pc.localDescription
            if ans is not None and ans.type == "answer":
                o = [(x.kind, x.mid) for x in sdpmini.Sdp(pend[n]).sections]
                a = [(x.kind, x.mid) for x in sdpmini.Sdp(ans.sdp).sections]
                if o != a:
                    self.violation("C14", "answer-not-matching-the-pending-offer-accepted:%s" % name,
                                   "%s: pending offer sections %r, accepted answer sections %r" % (n, o, a))
                else:
                    self.probes["answers_matched_against_pending_offer"] += 1
            pend.pop(n, None)

    def skip(self, op):
        self.probes["ops_skipped"] += 1

    def config_class(self):
        return "%s/%s" % (self.cfg["layout"], self.cfg["bundle"])

    def nontrivial(self):
        return self.probes.get("calls", 0) >= 2 and self.probes.get("illegal_calls", 0) + self.probes.get("legal_calls", 0) > 0

    def sample(self):
        return {"calls": self.probes.get("calls", 0), "legal": self.probes.get("legal_calls", 0),
                "illegal": self.probes.get("illegal_calls", 0), "final_states": dict(self.model)}


def run_c14(spec):
    return run_world(spec, gen_c14, C14World)


# ===========================================================================
# C19: close() at every scheduler step
# ===========================================================================
STRATA = 64          # close points per scenario (stratified over its length)
PC_EVENTS = ("track", "datachannel", "signalingstatechange", "connectionstatechange", "iceconnectionstatechange",
             "icegatheringstatechange")


class DummyDecoder:
    def decode(self, encoded_frame):
        return []


def gen_c19(ch, spec):
    from ..choices import Choices, derive_seed
    run = spec.get("run", 0)
    scen = spec.get("scenario", run // STRATA)
    cs = Choices(seed=derive_seed(spec.get("seed", 0), "C19-scenario", scen), record=False)
    a = gen_side(cs, True)
    b = gen_side(cs, False)
    if not a["items"]:
        a["items"] = gen_items(cs, 1)
    cfg = {"world": "c19", "A": a, "B": b, "scenario": scen,
           "sig_delay": cs.choice("cfg", [0.0, 0.05, 0.4]), "net_base": cs.choice("cfg", [0.001, 0.03]),
           "sched": True, "stall_rate": 0.0, "stall_max": 0.0,
           "flow": cs.choice("cfg", [0.3, 1.0, 2.5, 4.5, 7.0]), "renegotiate": cs.chance("cfg", 0.3),
           "track_limit": cs.choice("cfg", [None, None, 3, 20]), "turn": fakes.gen_turn(cs, ["A", "B"]),
           # a second negotiation right behind the first, while ICE / DTLS of the first are still connecting
           "eager": cs.chance("cfg", 0.3)}
    j = spec.get("stratum", run % STRATA)
    # where in the scenario (as a fraction of its scheduler steps) close() is injected; a little beyond the end too
    cfg["close_frac"] = round((j + ch.uniform("cfg", 0.0, 1.0)) / STRATA * 1.08, 5)
    if spec.get("sweep"):
        # systematic sweep: the run index *is* the close point (every `stride`-th scheduler step of one scenario)
        cfg["close_k"] = run * spec["sweep"]["stride"] + spec["sweep"].get("offset", 0)
    cfg["who"] = ch.choice("cfg", ["A", "B", "A", "B", "both", "A-twice", "B-twice", "vanish-B-close-A", "vanish-A-close-B",
                                   "both-staggered", "vanish-B-failed-close-A", "vanish-A-failed-close-B"])
    if spec.get("sweep"):
        cfg["who"] = spec["sweep"]["who"]
    cfg["stagger"] = ch.choice("cfg", [1, 3, 20, 200])
    if not spec.get("sweep") and ch.chance("cfg", 0.15):
        # an event-triggered close instead of a step index: a side hangs up the moment its own DTLS transport reports
        # "connected" (its close_notify then arrives right behind its last handshake flight, while the other side is
        # still starting its senders and receivers); the survivor closes later and is judged too
        cfg["who"] = ch.choice("cfg", ["A", "B"])
        cfg["trigger"] = "dtls-connected"
        cfg["stagger"] = ch.choice("cfg", [0, 1, 3])
    # the application creates one more data channel right before it calls close() (legal while the connection is not
    # closed - also when the association behind it has already ended because the other side went first)
    cfg["late_channel"] = ch.chance("cfg", 0.3)
    cfg["reopen_on_close"] = ch.chance("cfg", 0.3)
    cfg["survivor_wait"] = ch.choice("cfg", [0.0, 0.05, 1.0, 40.0])
    return cfg, []


class C19World(C03World):
    decoder_threads = True

    def __init__(self, spec, ch, cfg, ops):
        super().__init__(spec, ch, cfg, ops)
        self.threads = []          # (node, thread, input queue)
        world = self
        real_thread = threading.Thread

        class TrackedThread(real_thread):
            def __init__(self, *a, **kw):
                super().__init__(*a, **kw)
                from ..loop import NODE
                args = kw.get("args") or ()
                world.threads.append((NODE.get(), self, args[1] if len(args) > 1 else None))

        class ThreadingMod:
            Thread = TrackedThread

        self.rebind(rxmod, "threading", ThreadingMod)
        self.rebind(rxmod, "get_decoder", lambda codec: DummyDecoder())
        self.steps_at = None
        self.close_k = None
        self.closing = {}          # node -> {"task":, "t0":, "steps0":}
        self.consumers = {}        # node -> [ {"track":, "ended": bool} ]
        self.phase = "reference"
        self.done_scenario = False

    def cleanup(self):
        # let every decoder thread of this run finish before the loop goes away
        for node, th, q in self.threads:
            if th.is_alive() and q is not None:
                try:
                    q.put(None)
                except Exception:  # noqa
                    pass
        for node, th, q in self.threads:
            if th.is_alive():
                th.join(timeout=2.0)
        super().cleanup()

    # -- the scenario (what the two applications do when nobody closes) -----------------------
    def consume(self, n, track):
        rec = {"track": track, "ended": False, "frames": 0}
        self.consumers.setdefault(n, []).append(rec)

        async def loop_():
            try:
                while True:
                    await track.recv()
                    rec["frames"] += 1
            except MediaStreamError:
                rec["ended"] = True
            except asyncio.CancelledError:
                raise
            except Exception:  # noqa
                rec["ended"] = "error"

        self.loop.create_task(loop_(), context=self.ep[n].ctx)

    async def scenario(self):
        cfg = self.cfg
        for n in "AB":
            self.ep[n] = Endpoint(self, n, cfg[n])
            self.ep[n].pc.on("track", lambda tr, n=n: self.consume(n, tr))
        for n in "AB":
            try:
                self.ep[n].setup()
            except Exception:  # noqa
                return
        await self.quiet_negotiate("A", "B")
        if cfg.get("eager") and self.ep["B"].pc.signalingState == "stable":
            try:
                self.ep["B"].add_channel("eager-B")
            except Exception:  # noqa
                pass
            await self.quiet_negotiate("B", "A")
        await self.wait_for(lambda: all(self.ep[n].pc.connectionState in ("connected", "closed", "failed") for n in "AB"), 20.0)
        # data flows both ways for a while
        t_end = self.loop.time() + cfg["flow"]
        i = 0
        while self.loop.time() < t_end:
            for n in "AB":
                for c in self.ep[n].channels + self.ep[n].remote_channels:
                    if c.readyState == "open":
                        try:
                            self.ep[n].ctx.run(c.send, "m%d" % i)
                        except Exception:  # noqa
                            pass
            i += 1
            await asyncio.sleep(0.1)
        if cfg.get("renegotiate") and self.ep["B"].pc.signalingState != "closed":
            # (an application does not create channels on a connection it has closed; createDataChannel
            # would not refuse, and the events of the transport it creates are not close()'s doing)
            try:
                self.ep["B"].add_channel("late-B")
            except Exception:  # noqa
                pass
            await self.quiet_negotiate("B", "A")
            await asyncio.sleep(0.5)
        self.done_scenario = True

    async def quiet_negotiate(self, offerer, answerer):
        """Offer/answer; whatever the calls raise once somebody has closed is ignored (C19 says so)."""
        X, Y = self.ep[offerer], self.ep[answerer]
        exc, offer = await self.call(offerer, X.pc.createOffer)
        if exc is not None:
            return
        exc, _ = await self.call(offerer, X.pc.setLocalDescription, offer)
        if exc is not None or X.pc.localDescription is None:
            return
        text = X.pc.localDescription.sdp
        await self.signal()
        exc, _ = await self.call(answerer, Y.pc.setRemoteDescription, RTCSessionDescription(sdp=text, type="offer"))
        if exc is not None:
            return
        exc, answer = await self.call(answerer, Y.pc.createAnswer)
        if exc is not None:
            return
        exc, _ = await self.call(answerer, Y.pc.setLocalDescription, answer)
        if exc is not None or Y.pc.localDescription is None:
            return
        text = Y.pc.localDescription.sdp
        await self.signal()
        await self.call(offerer, X.pc.setRemoteDescription, RTCSessionDescription(sdp=text, type="answer"))

    # -- close injection ------------------------------------------------------------------------
    def user_closed(self, n):
        return n in self.closing

    def start_close(self, n):
        if n in self.closing:
            return
        pc = self.ep[n].pc
        if self.cfg.get("late_channel") and pc.signalingState != "closed":
            try:
                self.ep[n].add_channel("late-%s" % n)
                self.probes["channel_created_right_before_close"] += 1
                if pc.sctp is not None and pc.sctp.state == "closed":
                    self.probes["channel_created_on_ended_association"] += 1
            except Exception:  # noqa
                pass
        rec = {"t0": self.loop.time(), "steps0": self.loop.steps, "state_at": (pc.signalingState, pc.connectionState,
                                                                              pc.iceConnectionState)}
        rec["task"] = self.loop.create_task(pc.close(), context=self.ep[n].ctx)
        self.closing[n] = rec
        self.log.add("close", n, rec["state_at"])
        self.probes["close_in_" + pc.connectionState] += 1
        self.probes["close_in_signaling_" + pc.signalingState] += 1
        if any(c.readyState == "open" for c in self.ep[n].channels + self.ep[n].remote_channels):
            self.probes["close_with_open_data_channels"] += 1
        if pc.sctp is not None:
            self.probes["close_with_sctp_" + pc.sctp.state] += 1

    def hook(self):
        if getattr(self, "_fired", False) or len(self.ep) < 2:
            return
        if self.cfg.get("trigger") == "dtls-connected":
            pc = self.ep[self.cfg["who"]].pc
            seen = getattr(self, "_trigger_step", None)
            if seen is None:
                ts = [t.receiver.transport for t in pc.getTransceivers()] + ([pc.sctp.transport] if pc.sctp else [])
                if any(t.state == "connected" for t in ts):
                    self._trigger_step = self.loop.steps
                    self.probes["close_triggered_by_dtls_connected"] += 1
                return
            if self.loop.steps < seen + self.cfg["stagger"]:
                return
        elif self.close_k is None or self.loop.steps < self.close_k:
            return
        if len(self.ep) < 2:
            return      # the peer connections do not exist yet: the earliest close point is right after construction
        self._fired = True
        who = self.cfg["who"]
        try:
            if who in ("A", "B"):
                self.start_close(who)
            elif who == "both":
                self.start_close("A")
                self.start_close("B")
            elif who == "both-staggered":
                self.start_close("A")
                self._second = ("B", self.loop.steps + self.cfg["stagger"])
            elif who.endswith("-twice"):
                n = who[0]
                self.start_close(n)
                self.closing[n]["task2"] = self.loop.create_task(self.ep[n].pc.close(), context=self.ep[n].ctx)
            elif who.startswith("vanish-"):
                gone, closer = who[7], who[-1]
                for c in self.fabric.conns:
                    if c.node == gone:
                        c.vanish()
                self.probes["remote_vanished"] += 1
                if "-failed-" in who:
                    # close once the survivor has noticed (consent expired, ICE failed), a few steps later
                    self._second = (closer, None)
                else:
                    self._second = (closer, self.loop.steps + self.cfg["stagger"] * 50)
        except Exception as exc:  # noqa
            self.harness_note(exc)

    def hook2(self):
        self.hook()
        sec = getattr(self, "_second", None)
        if sec is not None and sec[1] is None:
            # (aiortc closes the connection by itself once every DTLS transport has closed: "failed" is a short window)
            if self.ep[sec[0]].pc.iceConnectionState in ("failed", "closed"):
                sec = self._second = (sec[0], self.loop.steps + self.cfg["stagger"])
            else:
                return
        if sec is not None and self.loop.steps >= sec[1]:
            self._second = None
            try:
                self.start_close(sec[0])
            except Exception as exc:  # noqa
                self.harness_note(exc)

    async def main(self):
        # the length of the scenario in scheduler steps comes from a reference execution of the same
        # scenario without close (done by run_c19 in a world of its own) unless the replay pins the step
        self.close_k = self.spec["close_k"]
        self.loop.step_hook = self.hook2
        self.phase = "run"
        scen = self.loop.create_task(self.scenario())
        # wait for the injected close(s) to be issued (the scenario may end first: then close at the end)
        await self.wait_for(lambda: bool(self.closing) or (scen.done() and getattr(self, "_second", None) is None),
                            120.0, poll=0.05)
        if not self.closing:
            self._fired = True
            who = self.cfg["who"]
            for n in ("AB" if who.startswith("both") else (who[-1] if who.startswith("vanish") else who[0])):
                self.start_close(n)
            self.probes["closed_after_scenario_end"] += 1
        await self.wait_for(lambda: getattr(self, "_second", None) is None, 60.0, poll=0.05)
        await self.judge()
        # the peer nobody has closed yet: its remote side has gone away (closed, or vanished); some time later the
        # application closes it too, and that close() is judged like the first
        rest = [n for n in "AB" if n in self.ep and n not in self.closing]
        if rest and not self.violations:
            await asyncio.sleep(self.cfg.get("survivor_wait", 0.0))
            for n in rest:
                self.start_close(n)
                self.probes["survivor_closed"] += 1
            await self.judge(only=rest)
        # tidy up: the scenario and the surviving peer
        if not scen.done():
            scen.cancel()
        for n in "AB":
            if n not in self.closing:
                try:
                    await asyncio.wait_for(self.loop.create_task(self.ep[n].pc.close(), context=self.ep[n].ctx), 60.0)
                except BaseException:  # noqa
                    pass
        self.link_faults(self.fabric.links)

    async def judge(self, only=None):
        loop = self.loop
        for n, rec in list(self.closing.items()):
            if only is not None and n not in only:
                continue
            pc = self.ep[n].pc
            t = rec["task"]
            try:
                await asyncio.wait_for(asyncio.shield(t), 120.0)
            except asyncio.TimeoutError:
                where = self.where_stuck(t)
                self.violation("C19", "close-does-not-complete:" + where,
                               "close() on %s issued at step %d (states %r) still pending after 120 simulated seconds; waiting in %s" % (
                                   n, rec["steps0"], rec["state_at"], where))
                continue
            except asyncio.CancelledError:
                raise
            except Exception as exc:  # noqa
                self.violation("C19", "close-raised:" + exc_tag(exc), "close() on %s: %r" % (n, exc))
                continue
            rec["dt"] = loop.time() - rec["t0"]
            self.probes["close_completed"] += 1
            if "task2" in rec:
                try:
                    await asyncio.wait_for(asyncio.shield(rec["task2"]), 5.0)
                except Exception as exc:  # noqa
                    self.violation("C19", "second-close-fails:" + type(exc).__name__, "on %s: %r" % (n, exc))
            # calling it again is a no-op
            s0 = loop.steps
            try:
                await asyncio.wait_for(loop.create_task(pc.close(), context=self.ep[n].ctx), 5.0)
            except Exception as exc:  # noqa
                self.violation("C19", "close-again-fails:" + type(exc).__name__, "on %s: %r" % (n, exc))
            states = (pc.signalingState, pc.iceConnectionState, pc.connectionState)
            if states != ("closed", "closed", "closed"):
                self.violation("C19", "states-not-closed-after-close:%s/%s/%s" % states,
                               "%s after close(): signaling/ice/connection = %r (closed at step %d in %r)" % (
                                   n, states, rec["steps0"], rec["state_at"]))
            chans = self.ep[n].channels + self.ep[n].remote_channels
            open_ = [(c.label, c.readyState) for c in chans if c.readyState != "closed"]
            if open_:
                self.violation("C19", "data-channel-not-closed-after-close", "%s: %r" % (n, open_))
            # events after close returned: listen afresh (close() removed the old listeners)
            fired = []
            for ev in PC_EVENTS:
                pc.on(ev, lambda *a, ev=ev: fired.append(ev))
            rec["fired"] = fired
        if not self.closing:
            return
        await asyncio.sleep(3.0)        # grace period
        import threading as _th
        for n, rec in self.closing.items():
            if "dt" not in rec or (only is not None and n not in only):
                continue
            if rec["fired"]:
                self.violation("C19", "event-fired-after-close-returned:" + rec["fired"][0], "%s: %r" % (n, rec["fired"][:5]))
            live = [c for c in self.consumers.get(n, []) if not c["ended"]]
            if live:
                self.violation("C19", "received-track-not-ended-after-close", "%s: %d of %d consumers still waiting in recv()" % (
                    n, len(live), len(self.consumers.get(n, []))))
            leaked = self.leaked_tasks(n)
            if leaked:
                self.violation("C19", "task-left-running-after-close:" + leaked[0], "%s: %r (closed at step %d in %r)" % (
                    n, leaked[:5], rec["steps0"], rec["state_at"]))
            alive = [th.name for node, th, q in self.threads if node == n and th.is_alive()]
            if alive:
                self.violation("C19", "decoder-thread-left-running-after-close", "%s: %r" % (n, alive))
            self.note_state("%s|%s" % rec["state_at"][:2])

    def where_stuck(self, task):
        try:
            frames = task.get_stack()
            for f in reversed(frames):
                fn = f.f_code.co_filename
                if "aiortc" in fn and "simrtc" not in fn:
                    return "%s.%s" % (fn.rsplit("/", 1)[-1].replace(".py", ""), f.f_code.co_name)
            # walk the await chain
            c = task.get_coro()
            name = "?"
            while c is not None:
                code = getattr(c, "cr_code", None) or getattr(c, "gi_code", None)
                if code is not None and "aiortc" in code.co_filename and "simrtc" not in code.co_filename:
                    name = "%s.%s" % (code.co_filename.rsplit("/", 1)[-1].replace(".py", ""), code.co_name)
                c = getattr(c, "cr_await", None) or getattr(c, "gi_yieldfrom", None)
            return name
        except Exception:  # noqa
            return "?"

    def leaked_tasks(self, n):
        from ..loop import NODE
        out = []
        for t in asyncio.all_tasks(self.loop):
            if t.done():
                continue
            try:
                node = t.get_context().get(NODE, "main")
            except Exception:  # noqa
                continue
            if node != n:
                continue
            coro = t.get_coro()
            code = getattr(coro, "cr_code", None)
            if code is None or "aiortc" not in code.co_filename or "simrtc" in code.co_filename:
                continue
            out.append("%s.%s" % (code.co_filename.rsplit("/", 1)[-1].replace(".py", ""), coro.__qualname__.split(".")[-1]))
        return sorted(out)

    def config_class(self):
        return self.cfg["who"]

    def nontrivial(self):
        return self.probes.get("close_completed", 0) > 0 or bool(self.violations)

    def sample(self):
        return {"close_at_step": self.close_k, "who": self.cfg["who"],
                "closed_in": {n: r.get("state_at") for n, r in self.closing.items()}}


class C19Reference(C19World):
    """The same scenario without any close: only its length in scheduler steps is of interest."""

    async def main(self):
        scen = self.loop.create_task(self.scenario())
        await self.wait_for(lambda: scen.done(), 120.0, poll=0.05)
        self.ref_steps = self.loop.steps
        for n in "AB":
            if n in self.ep:
                try:
                    await asyncio.wait_for(self.loop.create_task(self.ep[n].pc.close(), context=self.ep[n].ctx), 60.0)
                except BaseException:  # noqa
                    pass


_REF_STEPS = {}


def run_c19(spec):
    from ..choices import Choices, derive_seed
    from .common import build_choices, execute_world, finish
    spec = dict(spec)
    spec["seed_int"] = derive_seed(spec.get("seed", 0), spec["property"], spec.get("run", 0)) & 0xFFFFFFFF
    ch, cfg, ops = build_choices(spec, gen_c19)
    if "close_k" not in cfg:
        # reference execution: how many scheduler steps does this scenario take?  (a function of the scenario
        # alone - its scheduler choices are seeded by the scenario index - so it is measured once per process)
        key = (spec.get("seed", 0), cfg["scenario"])
        n = _REF_STEPS.get(key)
        if n is None:
            ref_seed = derive_seed(spec.get("seed", 0), "C19-reference", cfg["scenario"])
            ref_ch = Choices(seed=ref_seed, record=False)
            # (everything the reference execution draws - also through the random / urandom seams - is a function of
            # the scenario, not of the run that happens to measure it first in this process)
            ref, h = execute_world(C19Reference, dict(spec, close_k=None, seed_int=ref_seed & 0xFFFFFFFF), ref_ch, cfg, ops)
            n = getattr(ref, "ref_steps", None)
            if h or n is None:
                return {"verdict": "harness_error", "detail": "reference run failed: %r" % (h,)}
            if len(_REF_STEPS) > 500:
                _REF_STEPS.clear()
            _REF_STEPS[key] = n
        cfg["ref_steps"] = n
        cfg["close_k"] = int(cfg["close_frac"] * n)
    spec["close_k"] = cfg["close_k"]
    world, harness = execute_world(C19World, spec, ch, cfg, ops)
    return finish(world, spec, ch, cfg, ops, harness)


def c19_reference_steps(spec):
    """Length (scheduler steps) of one scenario, for the systematic sweep."""
    from ..choices import Choices, derive_seed
    from .common import build_choices, execute_world
    spec = dict(spec, run=0)
    spec["seed_int"] = derive_seed(spec.get("seed", 0), spec["property"], 0) & 0xFFFFFFFF
    ch, cfg, ops = build_choices(spec, gen_c19)
    ref_seed = derive_seed(spec.get("seed", 0), "C19-reference", cfg["scenario"])
    ref, h = execute_world(C19Reference, dict(spec, close_k=None, seed_int=ref_seed & 0xFFFFFFFF),
                           Choices(seed=ref_seed, record=False), cfg, ops)
    return getattr(ref, "ref_steps", None)


def c19_post(agg, base_spec, tier):
    """fault enumeration proper: for a few scenarios, close() at every `stride`-th scheduler step from
    0 to the end, by one side and by both at once."""
    from ..runner import explore, fork_run
    import time as _t
    out = {"sweeps": []}
    budget = 25.0 if tier == "quick" else 240.0
    plans = [(0, "A"), (1, "B")] if tier == "quick" else [(0, "A"), (0, "both"), (1, "B"), (2, "A"), (3, "both"), (4, "B")]
    t_each = budget / len(plans)
    for scen, who in plans:
        spec = dict(base_spec, scenario=scen, stratum=0)
        res = fork_run(_ref_entry, spec)
        n = res.get("ref_steps")
        if not n:
            continue
        target = 120 if tier == "quick" else 100000
        stride = max(1, n // target)
        sweep = dict(base_spec, scenario=scen, sweep={"stride": stride, "who": who})
        sub = explore(run_c19, sweep, t_each, n // stride + 2)
        out["sweeps"].append({"scenario": scen, "who": who, "scenario_steps": n, "stride": stride,
                              "close_points_tried": sub.runs, "complete": sub.runs >= n // stride + 1,
                              "violations": dict(sub.violation_count)})
        merged = sub.to_json()
        agg.merge_json(merged)
    out["exhaustive_over_close_points"] = bool(out["sweeps"]) and all(s["complete"] and s["stride"] == 1 for s in out["sweeps"])
    return out


def _ref_entry(spec):
    return {"verdict": "ok", "ref_steps": c19_reference_steps(spec)}
