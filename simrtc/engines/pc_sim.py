"""pc_sim: two real RTCPeerConnections (real SDP, transceivers, DTLS, SRTP, SCTP,
RTP senders/receivers) joined by SimIceConnection/SimNet and an in-simulation
signalling channel.  Decides C03 (offer/answer over the configuration space),
C14 (JSEP state machine under arbitrary call programs) and C19 (close() at
every scheduler step).
"""

import asyncio
import fractions
import threading
from collections import Counter

from ..seams import setup_import_path

setup_import_path()
import aiortc  # noqa: E402
import aiortc.rtcpeerconnection as pcmod  # noqa: E402
import aiortc.rtcrtpreceiver as rxmod  # noqa: E402
import av  # noqa: E402
from aiortc import RTCConfiguration, RTCPeerConnection, RTCSessionDescription  # noqa: E402
from aiortc.exceptions import InvalidStateError, OperationError  # noqa: E402
from aiortc.mediastreams import MediaStreamError, MediaStreamTrack  # noqa: E402
from aiortc.rtcconfiguration import RTCBundlePolicy  # noqa: E402
from aiortc.rtcrtpsender import RTCRtpSender  # noqa: E402

from .. import fakes, sdpmini  # noqa: E402
from ..net import Profile  # noqa: E402
from .common import exc_tag, run_world  # noqa: E402
from .history_sim import _FakeThreading  # noqa: E402
from .media_sim import MediaBase  # noqa: E402

BUNDLE = {"balanced": RTCBundlePolicy.BALANCED, "max-compat": RTCBundlePolicy.MAX_COMPAT,
          "max-bundle": RTCBundlePolicy.MAX_BUNDLE}
DIRS = ["sendrecv", "sendonly", "recvonly", "inactive"]
REVERSE = {"sendrecv": "sendrecv", "sendonly": "recvonly", "recvonly": "sendonly", "inactive": "inactive", None: None}
MIMES = {"audio": ["audio/opus", "audio/G722", "audio/PCMU", "audio/PCMA"], "video": ["video/VP8", "video/H264"]}


class SimMediaTrack(MediaStreamTrack):
    """Yields pre-encoded packets (the sender then runs the real packetiser)."""

    def __init__(self, kind, serial):
        super().__init__()
        self.kind = kind
        self.n = 0
        self.serial = serial

    async def recv(self):
        if self.readyState != "live":
            raise MediaStreamError
        await asyncio.sleep(0.02 if self.kind == "audio" else 0.04)
        self.n += 1
        size = 40 if self.kind == "audio" else (300 + (self.n * 977) % 2500)
        pkt = av.Packet(bytes(((self.n * 13 + i * 7 + self.serial) % 255) + 1 for i in range(size)))
        pkt.pts = self.n * (960 if self.kind == "audio" else 3600)
        pkt.time_base = fractions.Fraction(1, 48000 if self.kind == "audio" else 90000)
        return pkt


def gen_items(ch, n):
    items = []
    for _ in range(n):
        kind = ch.choice("cfg", ["audio", "video"])
        how = ch.choice("cfg", ["addTrack", "addTrack", "transceiver_kind", "transceiver_track"])
        it = {"kind": kind, "how": how,
              "direction": "sendrecv" if how == "addTrack" else ch.choice("cfg", DIRS + ["sendrecv"]),
              "prefs": None}
        if ch.chance("cfg", 0.35):
            mimes = MIMES[kind][:]
            # a non-empty ordered subset
            k = 1 + ch.index("cfg", len(mimes))
            sel = []
            for _ in range(k):
                m = mimes.pop(ch.index("cfg", len(mimes)))
                sel.append(m)
            it["prefs"] = {"mimes": sel, "rtx": ch.chance("cfg", 0.5)}
        items.append(it)
    return items


def gen_side(ch, offerer):
    side = {"bundle": ch.choice("cfg", ["balanced", "balanced", "max-compat", "max-bundle"])}
    side["items"] = gen_items(ch, ch.choice("cfg", [0, 1, 1, 2, 2, 3] if offerer else [0, 0, 0, 1, 1, 2]))
    side["dc"] = ch.chance("cfg", 0.6 if offerer else 0.25)
    side["dc_first"] = ch.chance("cfg", 0.3)
    if offerer and not side["items"] and not side["dc"]:
        side["dc"] = True
    return side


def gen_c03(ch, spec):
    cfg = {"world": "c03", "A": gen_side(ch, True), "B": gen_side(ch, False)}
    cfg["sig_delay"] = ch.choice("cfg", [0.0, 0.01, 0.2, 1.5])
    cfg["net_base"] = ch.choice("cfg", [0.001, 0.02, 0.15])
    cfg["sched"] = ch.chance("cfg", 0.7, True)
    cfg["stall_rate"] = ch.choice("cfg", [0.0, 0.0, 0.003])
    cfg["stall_max"] = ch.choice("cfg", [0.01, 0.2])
    ops = []
    # follow-up negotiations that add media / a data channel, possibly swapping the offering side
    for _ in range(ch.choice("wl", [0, 0, 1, 1, 2])):
        who = ch.choice("wl", ["A", "B"])
        what = ch.choice("wl", ["media", "media", "dc"])
        op = {"op": "renegotiate", "side": who, "add": what}
        if what == "media":
            op["item"] = gen_items(ch, 1)[0]
        ops.append(op)
    return cfg, ops


class Endpoint:
    def __init__(self, world, name, side_cfg):
        self.world = world
        self.name = name
        self.cfg = side_cfg
        self.ctx = world.fabric.context(name)
        self.pc = self.ctx.run(RTCPeerConnection, RTCConfiguration(iceServers=[], bundlePolicy=BUNDLE[side_cfg["bundle"]]))
        self.tracks = []
        self.prefs = {}          # transceiver -> set of mimes (lower) or None
        self.channels = []       # RTCDataChannel created locally
        self.remote_channels = []
        self.received = {}       # channel label -> [messages]
        self.remote_tracks = []
        self.events = []
        pc = self.pc

        @pc.on("datachannel")
        def on_dc(ch):
            self.remote_channels.append(ch)
            self.watch(ch)

        @pc.on("track")
        def on_track(track):
            self.remote_tracks.append(track)

        for ev in ("signalingstatechange", "connectionstatechange", "iceconnectionstatechange",
                   "icegatheringstatechange"):
            pc.on(ev, lambda ev=ev: self.events.append(ev))

    def watch(self, ch):
        self.received.setdefault(ch.label, [])
        ch.on("message", lambda m, lab=ch.label: self.received[lab].append(m))

    def add_item(self, it):
        pc = self.pc
        w = self.world
        w.track_serial += 1

        def go():
            if it["how"] == "addTrack":
                tr = SimMediaTrack(it["kind"], w.track_serial)
                self.tracks.append(tr)
                sender = pc.addTrack(tr)
                t = next(x for x in pc.getTransceivers() if x.sender is sender)
            elif it["how"] == "transceiver_track":
                tr = SimMediaTrack(it["kind"], w.track_serial)
                self.tracks.append(tr)
                t = pc.addTransceiver(tr, direction=it["direction"])
            else:
                t = pc.addTransceiver(it["kind"], direction=it["direction"])
            if it.get("prefs"):
                caps = RTCRtpSender.getCapabilities(it["kind"]).codecs
                want = [m.lower() for m in it["prefs"]["mimes"]]
                sel = []
                for m in want:
                    sel += [c for c in caps if c.mimeType.lower() == m]
                if it["prefs"]["rtx"] and it["kind"] == "video":
                    sel += [c for c in caps if c.mimeType.lower() == "video/rtx"]
                t.setCodecPreferences(sel)
                self.prefs[t] = set(want)
            return t
        return self.ctx.run(go)

    def add_channel(self, label):
        ch = self.ctx.run(self.pc.createDataChannel, label)
        self.channels.append(ch)
        self.watch(ch)
        return ch

    def setup(self):
        c = self.cfg
        if c["dc"] and c["dc_first"]:
            self.add_channel("dc-%s-0" % self.name)
        for it in c["items"]:
            self.add_item(it)
        if c["dc"] and not c["dc_first"]:
            self.add_channel("dc-%s-0" % self.name)


class PcWorld(MediaBase):
    engine = "pc_sim"
    decoder_threads = False

    def __init__(self, spec, ch, cfg, ops, **kw):
        super().__init__(spec, ch, cfg, ops, **kw)
        self.cert_state = fakes.install_certificate_pool()
        self.cert_state["i"] = 0
        fakes.SerialHash.install(aiortc.RTCIceTransport)
        aiortc.RTCIceTransport._sim_serial_counter["n"] = 0
        self.track_serial = 0
        base = cfg.get("net_base", 0.01)
        for key in (("A", "B"), ("B", "A")):
            self.fabric.profiles[key] = Profile(base=base)
        if not self.decoder_threads:
            world = self

            class TapQueue:
                def __init__(self, *a, **kw):
                    pass

                def put(self, item):
                    if item is not None:
                        world.probes["frames_to_decoder"] += 1

            class QueueMod:
                Queue = TapQueue

            self.rebind(rxmod, "threading", _FakeThreading)
            self.rebind(rxmod, "queue", QueueMod)
        self.ep = {}

    async def call(self, name, fn, *args):
        """Run `fn(*args)` (a coroutine function) as a task of endpoint `name`; -> (exception or None, value)."""
        async def runner():
            return await fn(*args)
        task = self.loop.create_task(runner(), context=self.ep[name].ctx)
        try:
            return None, await task
        except asyncio.CancelledError:
            raise
        except Exception as exc:  # noqa
            return exc, None

    async def signal(self):
        d = self.cfg.get("sig_delay", 0.0)
        if d:
            await asyncio.sleep(d)

    async def wait_for(self, pred, bound, poll=0.1):
        t_end = self.loop.time() + bound
        while self.loop.time() < t_end:
            if pred():
                return True
            await asyncio.sleep(poll)
        return pred()


# ===========================================================================
# C03
# ===========================================================================
class C03World(PcWorld):
    def expected_empty_intersection(self, offerer, answerer, offer_text):
        """The harness's own view: does some offered m-section share no real codec with the transceiver
        the answerer will match it to?"""
        offer = sdpmini.Sdp(offer_text)
        ans = self.ep[answerer]
        pool = [t for t in ans.pc.getTransceivers() if t.mid is None]
        used = set()
        bymid = {t.mid: t for t in ans.pc.getTransceivers() if t.mid is not None}
        for sec in offer.sections:
            if sec.kind not in ("audio", "video"):
                continue
            offered = {"%s/%s" % (sec.kind, n) for pt, n, c, chn, apt in sec.codecs() if n and n != "rtx"}
            t = bymid.get(sec.mid)
            if t is None:
                t = next((x for x in pool if x.kind == sec.kind and id(x) not in used), None)
                if t is not None:
                    used.add(id(t))
            prefs = ans.prefs.get(t) if t is not None else None
            if prefs is not None and not ({m for m in offered} & prefs):
                return True
        return False

    async def negotiate(self, offerer, answerer, round_no):
        X, Y = self.ep[offerer], self.ep[answerer]
        tag = "round%d" % round_no
        exc, offer = await self.call(offerer, X.pc.createOffer)
        if exc is not None:
            return self.neg_fail(tag, offerer, "createOffer", exc)
        exc, _ = await self.call(offerer, X.pc.setLocalDescription, offer)
        if exc is not None:
            return self.neg_fail(tag, offerer, "setLocalDescription(offer)", exc)
        offer_text = X.pc.localDescription.sdp
        await self.signal()
        empty = self.expected_empty_intersection(offerer, answerer, offer_text)
        exc, _ = await self.call(answerer, Y.pc.setRemoteDescription, RTCSessionDescription(sdp=offer_text, type="offer"))
        if exc is not None:
            if isinstance(exc, OperationError) and empty:
                self.exempt["no_common_codec_expected_operation_error"] += 1
                return "no-common-codec"
            return self.neg_fail(tag, answerer, "setRemoteDescription(offer)", exc)
        if empty:
            self.violation("C03", "offer-without-common-codec-accepted", "%s: the answerer's preferences share no codec "
                           "with an offered section, yet setRemoteDescription succeeded" % tag)
            return "bad"
        exc, answer = await self.call(answerer, Y.pc.createAnswer)
        if exc is not None:
            return self.neg_fail(tag, answerer, "createAnswer", exc)
        exc, _ = await self.call(answerer, Y.pc.setLocalDescription, answer)
        if exc is not None:
            return self.neg_fail(tag, answerer, "setLocalDescription(answer)", exc)
        answer_text = Y.pc.localDescription.sdp
        await self.signal()
        exc, _ = await self.call(offerer, X.pc.setRemoteDescription, RTCSessionDescription(sdp=answer_text, type="answer"))
        if exc is not None:
            return self.neg_fail(tag, offerer, "setRemoteDescription(answer)", exc)
        self.probes["negotiations_completed"] += 1
        # --- oracle on the two texts and the resulting states
        for n in (offerer, answerer):
            if self.ep[n].pc.signalingState != "stable":
                self.violation("C03", "not-stable-after-exchange", "%s: %s is %s" % (tag, n, self.ep[n].pc.signalingState))
        for sig, detail in sdpmini.compare_answer(offer_text, answer_text):
            self.violation("C03", sig, "%s (offerer %s): %s" % (tag, offerer, detail))
        ta = {t.mid: t for t in X.pc.getTransceivers() if t.mid is not None}
        tb = {t.mid: t for t in Y.pc.getTransceivers() if t.mid is not None}
        o = sdpmini.Sdp(offer_text)
        for sec in o.sections:
            if sec.kind not in ("audio", "video"):
                continue
            a, b = ta.get(sec.mid), tb.get(sec.mid)
            if a is None or b is None:
                self.violation("C03", "negotiated-section-without-transceiver", "%s mid=%s" % (tag, sec.mid))
                continue
            if a.currentDirection is None or REVERSE[a.currentDirection] != b.currentDirection:
                self.violation("C03", "current-directions-not-complementary", "%s mid=%s: %s has %s, %s has %s" % (
                    tag, sec.mid, offerer, a.currentDirection, answerer, b.currentDirection))
        self.log.add("negotiated", tag, offerer, len(o.sections), tuple(s.kind for s in o.sections))
        return "ok"

    def neg_fail(self, tag, who, call, exc):
        self.violation("C03", "%s-raised:%s" % (call, exc_tag(exc)), "%s: %s on %s raised %r" % (tag, call, who, exc))
        return "raised"

    def negotiated_transports_connected(self, n):
        """Diagnosis for the known finding: every transport that carries a negotiated section is
        connected, only a transceiver no description mentions keeps the aggregate at 'connecting'."""
        pc = self.ep[n].pc
        used = {t.receiver.transport for t in pc.getTransceivers() if t.mid is not None}
        if pc.sctp is not None and pc.sctp.mid is not None:
            used.add(pc.sctp.transport)
        idle = [t for t in pc.getTransceivers() if t.mid is None and t.receiver.transport not in used]
        if pc.sctp is not None and pc.sctp.mid is None and pc.sctp.transport not in used:
            idle.append(pc.sctp)
        return bool(used) and bool(idle) and all(d.state == "connected" and d.transport.state == "completed" for d in used)

    async def check_connected(self, tag):
        eps = self.ep

        def up(n):
            return eps[n].pc.connectionState == "connected" or self.negotiated_transports_connected(n)

        ok = await self.wait_for(lambda: all(up(n) for n in "AB"), 60.0)
        if not ok:
            self.violation("C03", "negotiated-session-does-not-connect",
                           "%s: connectionState A=%s B=%s ice A=%s B=%s" % (
                               tag, eps["A"].pc.connectionState, eps["B"].pc.connectionState,
                               eps["A"].pc.iceConnectionState, eps["B"].pc.iceConnectionState))
            return False
        held = [n for n in "AB" if eps[n].pc.connectionState != "connected"]
        if held:
            await asyncio.sleep(2.0)
            held = [n for n in "AB" if eps[n].pc.connectionState != "connected"]
        if held:
            self.violation("C03", "negotiated-session-does-not-connect:transport-of-a-section-no-description-mentions-holds-state-at-connecting",
                           "%s: %s reports connectionState=%s / iceConnectionState=%s although every negotiated transport is "
                           "connected; it owns a transceiver (or data-channel transport) that no description mentions" % (
                               tag, held, [eps[n].pc.connectionState for n in held], [eps[n].pc.iceConnectionState for n in held]))
        self.probes["connected"] += 1
        # every negotiated data channel opens and carries messages
        # (a channel created on a side whose descriptions carry no application section yet is not negotiated)
        chans = [(n, c) for n in "AB" for c in eps[n].channels
                 if eps[n].pc.sctp is not None and eps[n].pc.sctp.mid is not None]
        if chans:
            ok = await self.wait_for(lambda: all(c.readyState == "open" for _, c in chans), 60.0)
            if not ok:
                self.violation("C03", "data-channel-does-not-open", "%s: %r" % (
                    tag, [(n, c.label, c.readyState) for n, c in chans]))
                return False
            for n, c in chans:
                peer = "B" if n == "A" else "A"
                msg = "ping %s %s" % (c.label, tag)
                eps[n].ctx.run(c.send, msg)
                ok = await self.wait_for(lambda: msg in eps[peer].received.get(c.label, []), 60.0)
                if not ok:
                    self.violation("C03", "data-channel-carries-no-message", "%s: %s from %s never arrived" % (tag, c.label, n))
                    return False
                rc = next((x for x in eps[peer].remote_channels if x.label == c.label), None)
                if rc is None:
                    self.violation("C03", "data-channel-not-announced-to-peer", "%s: %s" % (tag, c.label))
                    return False
                back = "pong %s %s" % (c.label, tag)
                eps[peer].ctx.run(rc.send, back)
                ok = await self.wait_for(lambda: back in eps[n].received.get(c.label, []), 60.0)
                if not ok:
                    self.violation("C03", "data-channel-carries-no-message", "%s: reply on %s never arrived" % (tag, c.label))
                    return False
            self.probes["data_channels_verified"] += len(chans)
        return True

    async def main(self):
        cfg = self.cfg
        for n in "AB":
            self.ep[n] = Endpoint(self, n, cfg[n])
        try:
            for n in "AB":
                self.ep[n].setup()
        except Exception as exc:  # noqa
            self.violation("C03", "setup-raised:" + exc_tag(exc), repr(exc))
            return
        res = await self.negotiate("A", "B", 1)
        if res != "ok" or self.violations:
            return
        if not await self.check_connected("round1"):
            return
        round_no = 1
        for op in self.ops:
            round_no += 1
            who = op["side"]
            other = "B" if who == "A" else "A"
            try:
                if op["add"] == "dc":
                    self.ep[who].add_channel("dc-%s-%d" % (who, round_no))
                else:
                    self.ep[who].add_item(op["item"])
            except Exception as exc:  # noqa
                self.violation("C03", "setup-raised:" + exc_tag(exc), repr(exc))
                return
            res = await self.negotiate(who, other, round_no)
            if res != "ok" or self.violations:
                return
            self.probes["renegotiations"] += 1
            if who == "B":
                self.probes["offering_side_swapped"] += 1
            if not await self.check_connected("round%d" % round_no):
                return
        self.link_faults(self.fabric.links)

    def config_class(self):
        c = self.cfg
        return "%s/%s/%d+%d%s%s" % (c["A"]["bundle"], c["B"]["bundle"], len(c["A"]["items"]), len(c["B"]["items"]),
                                    "+dcA" if c["A"]["dc"] else "", "+dcB" if c["B"]["dc"] else "")

    def nontrivial(self):
        return self.probes.get("negotiations_completed", 0) > 0

    def sample(self):
        return {"negotiations": self.probes.get("negotiations_completed", 0), "connected": self.probes.get("connected", 0),
                "data_channels_verified": self.probes.get("data_channels_verified", 0)}


def run_c03(spec):
    return run_world(spec, gen_c03, C03World)
