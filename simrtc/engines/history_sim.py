"""history_sim: the stateful media-plane objects whose properties quantify over
*arrival histories* - JitterBuffer (C10), RemoteBitrateEstimator (C15), the
receiver statistics / RTCP receiver reports of a real RTCRtpReceiver (C18) and
RtpRouter (C12) - driven through the simulated network and clock: a sender
task emits a generated stream, SimNet loses / duplicates / delays / reorders
it, the real object consumes the arrivals in simulated time, and a small
reference model is compared event by event.
"""

import asyncio
import re
import struct
from collections import Counter, deque

from ..seams import setup_import_path

setup_import_path()
import aiortc.jitterbuffer  # noqa: E402
import aiortc.rate  # noqa: E402
import aiortc.rtcrtpreceiver  # noqa: E402
import aiortc.rtcdtlstransport  # noqa: E402
import aiortc.rtp  # noqa: E402

from ..loop import node_context  # noqa: E402
from ..net import Link, Profile, random_profile  # noqa: E402
from .common import BaseWorld, exc_tag, run_world  # noqa: E402


def origin16(ch, mode):
    if mode == "small":
        return ch.randint("cfg", 0, 300, 1)
    if mode == "wrap":
        return 65535 - ch.randint("cfg", 0, 300, 3)
    return ch.randint("cfg", 0, 65535, 777)


def origin32(ch, mode):
    if mode == "small":
        return ch.randint("cfg", 0, 100000, 1)
    if mode == "wrap":
        return 0xFFFFFFFF - ch.randint("cfg", 0, 200000, 3)
    return ch.randint("cfg", 0, 0xFFFFFFFF, 777)


# ===========================================================================
# C10  JitterBuffer
# ===========================================================================
JUMPS = [1, 2, 5, 50, 99, 100, 101, 127, 128, 129, 500, 5000, 32767, 32768, 40000, 65000, 65535]


def gen_jb(ch, spec):
    cfg = {"world": "jb"}
    cfg["capacity"] = ch.choice("cfg", [4, 8, 16, 16, 32, 64, 128, 128])
    cfg["prefetch"] = ch.choice("cfg", [0, 0, 1, 2, 3, 4])
    cfg["is_video"] = ch.chance("cfg", 0.6)
    cfg["mode"] = "complete" if ch.chance("cfg", 0.3) else "faulty"
    origin = ch.choice("cfg", ["small", "wrap", "wrap", "random"])
    cfg["origin"] = origin
    cfg["seq0"] = origin16(ch, origin)
    cfg["ts0"] = origin32(ch, origin)
    cfg["spacing"] = ch.choice("cfg", [0.0005, 0.001, 0.005])
    cap = cfg["capacity"]
    pp = max(cfg["prefetch"], 1)
    if cfg["mode"] == "complete":
        # frames and displacement that fit the ring: (pp+1)*maxframe + D + 2 <= capacity
        maxframe = max(1, min(8, (cap - 2) // (pp + 1) // 2))
        cfg["minframe"] = 2 if ch.chance("cfg", 0.7) else 1
        maxframe = max(maxframe, cfg["minframe"])
        cfg["maxframe"] = maxframe
        room = cap - 2 - (pp + 1) * maxframe
        disp = ch.choice("cfg", [0, 0, 1, 2, 4, 8, 16, 40])
        disp = max(0, min(disp, room))
        p = Profile(base=0.005)
        if disp:
            p.reorder = ch.choice("cfg", [0.05, 0.2, 0.5])
            p.reorder_max = round(disp * cfg["spacing"] * 0.9, 6)
        p.dup = ch.choice("cfg", [0.0, 0.0, 0.05, 0.2])
        cfg["net"] = p.to_json()
    else:
        cfg["maxframe"] = ch.choice("cfg", [1, 2, 4, 8, 12])
        cfg["net"] = random_profile(ch, "cfg", intensity=ch.choice("cfg", [0.05, 0.1, 0.3, 0.6])).to_json()
    nframes = ch.choice("wl", [5, 20, 60, 150, 400])
    ops = []
    # in a share of runs one frame carries the RTP timestamp 0 exactly (constant step, origin chosen to land on it)
    ts_zero = ch.chance("cfg", 0.2)
    if ts_zero:
        step = ch.choice("cfg", [960, 3000, 3000, 90000])
        cfg["ts_zero_step"] = step
        cfg["ts0"] = (-(ch.randint("cfg", 0, max(0, nframes - 1), 0)) * step) & 0xFFFFFFFF
    for i in range(nframes):
        op = {"n": ch.randint("wl", cfg.get("minframe", 1), cfg["maxframe"], cfg.get("minframe", 1))}
        if cfg["mode"] == "faulty":
            r = ch.index("wl", 100)
            if r < 4:
                op["jump"] = ch.choice("wl", JUMPS)
            if r >= 96:
                op["same_ts"] = True       # next frame re-uses this timestamp (merges)
            if 90 <= r < 96:
                op["gap"] = ch.choice("wl", [0.05, 0.5, 3.0])
        op["ts_step"] = ch.choice("wl", [1, 960, 3000, 3000, 90000, 0x7FFFFFFF])
        if ts_zero:
            op["ts_step"] = cfg["ts_zero_step"]
            op.pop("same_ts", None)
        ops.append(op)
    return cfg, ops


MARK = re.compile(rb"<(\d+)>")


class JbWorld(BaseWorld):
    engine = "history_sim"

    def __init__(self, spec, ch, cfg, ops):
        super().__init__(spec, ch, cfg, ops)
        self.jb = aiortc.jitterbuffer.JitterBuffer(capacity=cfg["capacity"], prefetch=cfg["prefetch"],
                                                   is_video=cfg["is_video"])
        self.ctx = {"S": node_context("S"), "R": node_context("R")}
        self.link = Link(self.loop, ch, "net.s2r", self.on_arrival, self.ctx["R"], Profile.from_json(cfg["net"]))
        self.pkts = []        # u -> (seq, ts, data)
        self.frames = []      # generator's frames: list of u lists (by timestamp run)
        self.arrived = set()
        self.first_arrived = None
        self.max_u = None
        self.used = set()
        self.last_frame_first = None
        self.released = []    # tuples of u
        self.order_guard = True   # clause 2 premise still holds
        self.max_disp = 0
        self.dead = False
        self.tail_from = None

    # -- sender -----------------------------------------------------------
    def _emit_frame(self, n, ts):
        us = []
        for _ in range(n):
            u = len(self.pkts)
            fill = b"." * ((u * 7) % 5)
            self.pkts.append((self.seq, ts, b"<%d>" % u + fill))
            self.seq = (self.seq + 1) & 0xFFFF
            us.append(u)
        return us

    async def sender(self):
        cfg = self.cfg
        self.seq = cfg["seq0"]
        ts = cfg["ts0"]
        cur = []
        for op in self.ops:
            if op.get("jump"):
                self.seq = (self.seq + op["jump"]) & 0xFFFF
                self.jumped = True
            if op.get("gap"):
                await asyncio.sleep(op["gap"])
            us = self._emit_frame(op["n"], ts)
            for u in us:
                self.link.send(struct.pack("!I", u))
                await asyncio.sleep(cfg["spacing"])
            cur.extend(us)
            if op.get("same_ts"):
                continue  # the next frame carries the same timestamp: one run
            self.frames.append(cur)
            cur = []
            ts = (ts + max(1, op["ts_step"])) & 0xFFFFFFFF
        if cur:
            self.frames.append(cur)
            ts = (ts + 3000) & 0xFFFFFFFF
        # drain tail on a healed link: in-order two-packet frames
        await asyncio.sleep(5.0)
        self.link.heal_at = self.loop.time()
        self.log.add("heal")
        self.tail_from = len(self.pkts)
        for _ in range(cfg["capacity"] + 2 * max(cfg["prefetch"], 1) + 6):
            us = self._emit_frame(2, ts)
            for u in us:
                self.link.send(struct.pack("!I", u))
                await asyncio.sleep(cfg["spacing"])
            ts = (ts + 3000) & 0xFFFFFFFF
        await asyncio.sleep(1.0)

    # -- receiver + oracle --------------------------------------------------
    def held(self):
        # by sequence number: a packet replaced by another one claiming the same
        # sequence number (duplicate, or a sender re-using a number) is not "thrown away"
        return {p.sequence_number for p in self.jb._packets if p is not None}

    def on_arrival(self, data, corrupted):
        if self.dead:
            return
        try:
            self._arrival(struct.unpack("!I", data)[0])
        except Exception as exc:  # noqa
            self.harness_note(exc)

    def _arrival(self, u):
        seq, ts, data = self.pkts[u]
        if ts == 0:
            self.probes["timestamp_zero_packets"] += 1
        pkt = aiortc.rtp.RtpPacket(payload_type=96, sequence_number=seq, timestamp=ts)
        pkt._data = data
        pkt._u = u
        if u in self.arrived:
            self.probes["duplicate_arrivals"] += 1
        # premise bookkeeping, in sequence-number space
        if self.max_u is None:
            self.first_arrived = u
            self.max_u = u
        elif u > self.max_u:
            fwd = (seq - self.pkts[self.max_u][0]) & 0xFFFF
            if fwd >= 30000 or fwd == 0:
                self.order_guard = False     # ambiguous forward jump
            self.max_u = u
        elif u < self.max_u:
            late = (self.pkts[self.max_u][0] - seq) & 0xFFFF
            if u not in self.arrived and (self.tail_from is None or u < self.tail_from):
                self.max_disp = max(self.max_disp, self.max_u - u)
            if late >= 100 or late == 0:
                if self.order_guard:
                    self.probes["late_100_or_more"] += 1
                self.order_guard = False
        self.arrived.add(u)
        before = self.held()
        try:
            pli, frame = self.jb.add(pkt)
        except Exception as exc:  # noqa
            self.violation("C10", "add-raised:" + exc_tag(exc), "u=%d seq=%d: %r" % (u, seq, exc))
            self.dead = True
            return
        after = self.held()
        occ = sum(1 for p in self.jb._packets if p is not None)
        if occ > self.cfg["capacity"] or len(self.jb._packets) != self.cfg["capacity"]:
            self.violation("C10", "holds-more-than-capacity", "occupancy=%d" % occ)
        fus = None
        if frame is not None:
            fus = self.check_frame(frame)
        thrown = before - after - {self.pkts[x][0] for x in (fus or ())}
        if thrown:
            self.probes["threw_away_held_packets"] += 1
            if self.cfg["is_video"] and not pli:
                self.violation("C10", "discarded-held-packets-without-key-frame-request",
                               "u=%d seq=%d thrown seqs=%r" % (u, seq, sorted(thrown)[:8]))
        if pli:
            self.probes["pli"] += 1
        self.log.add("add", u, int(bool(pli)), tuple(fus) if fus else None)
        self.note_state("occ%d|f%d|p%d|g%d" % (min(occ * 4 // self.cfg["capacity"], 4), frame is not None,
                                               bool(pli), self.order_guard))

    def check_frame(self, frame):
        us = [int(m) for m in MARK.findall(frame.data)]
        self.probes["frames_released"] += 1
        expect = b"".join(self.pkts[u][2] for u in us if u < len(self.pkts))
        if not us or expect != frame.data:
            self.violation("C10", "frame-is-not-a-concatenation-of-received-payloads", "data=%r" % frame.data[:80])
            return us
        bad = None
        for i, u in enumerate(us):
            seq, ts, _ = self.pkts[u]
            if u not in self.arrived:
                bad = "packet-never-received"
            elif ts != frame.timestamp:
                bad = "mixed-timestamps"
            elif i and seq != ((self.pkts[us[i - 1]][0] + 1) & 0xFFFF):
                bad = "non-consecutive-sequence-numbers"
            if bad:
                break
        if bad:
            self.violation("C10", "frame:" + bad, "us=%r ts=%r" % (us[:12], frame.timestamp))
            return us
        if self.order_guard:
            again = [u for u in us if u in self.used]
            if again:
                self.violation("C10", "packet-used-in-two-frames", "us=%r reused=%r" % (us[:12], again[:6]))
            elif self.last_frame_first is not None and us[0] <= self.last_frame_first:
                self.violation("C10", "frames-out-of-sequence-order", "frame starting at u=%d after u=%d" % (
                    us[0], self.last_frame_first))
        self.used.update(us)
        self.last_frame_first = us[0]
        self.released.append(tuple(us))
        return us

    def final(self):
        cfg = self.cfg
        if cfg["mode"] != "complete" or self.dead or self.first_arrived is None:
            return
        pp = max(cfg["prefetch"], 1)
        need = (pp + 1) * cfg["maxframe"] + self.max_disp + 2
        if need > cfg["capacity"] or self.link.stats.get("drop") or not self.order_guard:
            self.exempt["complete_premise_not_met"] += 1
            return
        self.probes["complete_premise_held"] += 1
        count = Counter(self.released)
        single = any(len(f) < 2 for f in self.frames)
        for f in self.frames:
            if f[0] < self.first_arrived or (f[0] <= self.first_arrived <= f[-1] and f[0] != self.first_arrived):
                continue  # before (or cut by) the first packet the buffer ever saw
            n = count.get(tuple(f), 0)
            if n != 1:
                why = ":single-packet-frames-backlog" if (single and n == 0) else ""
                self.violation("C10", "complete-stream:frame-%s%s" % ("released-twice" if n > 1 else "never-released", why),
                               "frame us=%r released %d times; capacity=%d prefetch=%d max displacement=%d" % (
                                   f[:12], n, cfg["capacity"], cfg["prefetch"], self.max_disp))
                return

    async def main(self):
        self.jumped = False
        await self.loop.create_task(self.sender(), context=self.ctx["S"])
        self.link_faults([self.link])
        self.final()

    def nontrivial(self):
        f = self.faults
        return self.probes.get("frames_released", 0) > 0 and (
            f.get("drop", 0) + f.get("dup", 0) + f.get("reordered", 0) + f.get("reorder_delay", 0) > 0)

    def sample(self):
        return {"frames_generated": len(self.frames), "frames_released": len(self.released),
                "packets": len(self.pkts), "max_displacement": self.max_disp}


# ===========================================================================
# C15  RemoteBitrateEstimator
# ===========================================================================
def gen_bwe(ch, spec):
    cfg = {"world": "bwe"}
    cfg["send_origin"] = ch.choice("cfg", [0.0, 63.5, 63.9, 1000.123, 12345.678])   # sender clock offset (s)
    # ("any number of SSRCs": also more than the 255 a REMB can list)
    cfg["nssrc"] = ch.choice("cfg", [1, 1, 1, 2, 2, 3, 3, 40, 255, 256, 300])
    cfg["ssrcs"] = [ch.randint("cfg", 0, 0xFFFFFFFF, 1234 + i) for i in range(cfg["nssrc"])]
    cfg["prop"] = ch.choice("cfg", [0.001, 0.02, 0.1])
    net = random_profile(ch, "cfg", intensity=ch.choice("cfg", [0.0, 0.02, 0.1])) if ch.chance("cfg", 0.5) \
        else Profile()
    net.base = cfg["prop"]
    cfg["net"] = net.to_json()
    nseg = ch.choice("wl", [1, 2, 4, 6, 10])
    ops = []
    for _ in range(nseg):
        kind = ch.weighted("wl", [5, 2, 1, 1, 1, 1, 2])
        seg = {"dur": ch.choice("wl", [0.3, 1.0, 2.5, 5.0, 12.0]),
               "pps": ch.choice("wl", [10, 50, 200, 500, 1000, 3000]),
               "size": ch.choice("wl", ["zero", "tiny", "mixed", "mtu", "mixed", "mtu"]),
               "cap": ch.choice("wl", [None, None, 64, 300, 1000, 5000, 30000])}
        if kind == 1:
            seg["idle"] = ch.choice("wl", [0.2, 0.999, 1.0, 1.001, 1.5, 4.0, 70.0])
        elif kind == 2:
            seg["burst"] = ch.choice("wl", [5, 30, 200])
        elif kind == 3:
            seg["cap"] = ch.choice("wl", [32, 100, 500])      # squeeze: queue builds, delay ramps
        elif kind == 4:
            seg["size"] = "zero"
        elif kind == 5:
            # payload-less packets squeezed through a thin link: over-use while the measurement is 0
            seg.update(size="zero", cap=ch.choice("wl", [32, 100]), pps=ch.choice("wl", [500, 1000]),
                       dur=ch.choice("wl", [1.0, 2.5, 5.0]))
        elif kind == 6:
            # a lone packet (or a handful) between idle periods longer than the window
            seg.update(lone=ch.choice("wl", [1, 1, 2, 3]), idle=ch.choice("wl", [1.001, 1.5, 2.0, 2.5, 4.0]),
                       after=ch.choice("wl", [0.0, 1.2, 2.0, 3.5]))
        if seg["dur"] * seg["pps"] > 6000:
            seg["dur"] = round(6000.0 / seg["pps"], 3)
        ops.append(seg)
    return cfg, ops


class BweWorld(BaseWorld):
    engine = "history_sim"

    def __init__(self, spec, ch, cfg, ops):
        super().__init__(spec, ch, cfg, ops, max_steps=6_000_000)
        self.est = aiortc.rate.RemoteBitrateEstimator()
        self.ctx = {"S": node_context("S"), "R": node_context("R")}
        self.link = Link(self.loop, ch, "net.s2r", self.on_arrival, self.ctx["R"], Profile.from_json(cfg["net"]))
        self.sent = []          # idx -> (ast, size, ssrc)
        self.busy_until = 0.0
        self.dead = False
        self.calls = []         # captured rate_control.update calls of the current add()
        self.win = deque()      # reference window: (arrival_ms, size)
        self.win_sum = 0
        self.first_ms = None
        self.win_start = None
        self.latest_m = None
        self.prev_est = None
        self.seen_ssrcs = []
        self.last_arrival_ms = None
        self.last_ast = None
        orig = self.est.rate_control.update

        def tap(usage, throughput, now_ms, _orig=orig):
            out = _orig(usage, throughput, now_ms)
            # what the detector says *now* (after this packet), not what the caller chose to pass on
            self.calls.append((self.est.detector.state(), throughput, now_ms, out))
            return out

        self.est.rate_control.update = tap

    async def sender(self):
        cfg = self.cfg
        n = 0
        for seg in self.ops:
            if seg.get("idle"):
                await asyncio.sleep(seg["idle"])
            if seg.get("lone"):
                for _ in range(seg["lone"]):
                    self._send(self._size(seg["size"], n), cfg["ssrcs"][n % len(cfg["ssrcs"])], None)
                    n += 1
                    await asyncio.sleep(0.002)
                self.probes["lone_packets_between_idle_periods"] += 1
                if seg.get("after"):
                    await asyncio.sleep(seg["after"])
                continue
            t_end = self.loop.time() + seg["dur"]
            gap = 1.0 / seg["pps"]
            burst = seg.get("burst", 0)
            while self.loop.time() < t_end and n < 40000:
                k = burst if burst else 1
                burst = 0
                for _ in range(k):
                    size = self._size(seg["size"], n)
                    self._send(size, cfg["ssrcs"][n % len(cfg["ssrcs"])], seg.get("cap"))
                    n += 1
                await asyncio.sleep(gap)
        await asyncio.sleep(3.0)

    @staticmethod
    def _size(mode, n):
        if mode == "zero":
            return 0
        if mode == "tiny":
            return (n * 7) % 40
        if mode == "mtu":
            return 1200 + (n % 3) * 150
        return (n * 211) % 1501

    def _send(self, size, ssrc, cap_kbps):
        now = self.loop.time()
        ast = int((self.cfg["send_origin"] + now) * (1 << 18)) & 0xFFFFFF
        idx = len(self.sent)
        self.sent.append((ast, size, ssrc))
        if cap_kbps:
            start = max(self.busy_until, now)
            if start - now > 1.5:
                self.faults["queue_tail_drop"] += 1
                return
            self.busy_until = start + (size + 40) * 8 / (cap_kbps * 1000.0)
            if start > now:
                self.probes["queued_behind_bottleneck"] += 1
            self.loop.call_at(self.busy_until, self.link.send, struct.pack("!I", idx), context=self.ctx["S"])
        else:
            self.link.send(struct.pack("!I", idx))

    def on_arrival(self, data, corrupted):
        if self.dead:
            return
        try:
            self._arrival(struct.unpack("!I", data)[0])
        except Exception as exc:  # noqa
            self.harness_note(exc)

    def ref_measure(self, now_ms, size):
        """Reference sliding window: bits of exactly the packets that arrived in
        (now-1000, now], over the part of that second the measurement has been
        running; restarted after the window ran empty."""
        w = self.win
        while w and w[0][0] <= now_ms - 1000:
            self.win_sum -= w.popleft()[1]
        if not w:
            self.win_start = now_ms
            if self.last_arrival_ms is not None:
                self.probes["window_restarted_after_idle"] += 1
        w.append((now_ms, size))
        self.win_sum += size
        if self.first_ms is None:
            self.first_ms = now_ms
        out = set()
        # the statement fixes which packets count (those of the last 1000 ms); the
        # time base is the part of that second the measurement has been running,
        # counted either from the first packet ever or from the first packet after
        # the window last ran empty - both are accepted
        for start in (self.win_start, self.first_ms):
            span = min(1000, now_ms - start + 1)
            out.add(None if span <= 1 else round(8000 * self.win_sum / span))
        return out

    def _arrival(self, idx):
        ast, size, ssrc = self.sent[idx]
        now_ms = aiortc.clock.current_ms()
        if self.last_arrival_ms is not None and now_ms < self.last_arrival_ms:
            raise AssertionError("arrival clock went backwards")
        if self.last_ast is not None and ast < self.last_ast and self.last_ast - ast > (1 << 23):
            self.probes["abs_send_time_wrapped"] += 1
        self.last_ast = ast
        if ssrc not in self.seen_ssrcs:
            self.seen_ssrcs.append(ssrc)
        m_ref = self.ref_measure(now_ms, size)
        self.last_arrival_ms = now_ms
        self.calls = []
        try:
            out = self.est.add(now_ms, ast, size, ssrc)
        except Exception as exc:  # noqa
            self.violation("C15", "add-raised:" + exc_tag(exc), "arrival_ms=%d ast=%d size=%d: %r" % (
                now_ms, ast, size, exc))
            self.dead = True
            return
        self.probes["arrivals"] += 1
        if size == 0:
            self.probes["zero_size_packets"] += 1
        usage = None
        for usage, throughput, t, ret in self.calls:
            self.probes["rate_updates"] += 1
            if throughput not in m_ref:
                self.violation("C15", "measurement-not-over-the-last-1000ms",
                               "at %d ms measured %r, the packets of the last 1000 ms give %r" % (
                                   now_ms, throughput, sorted(m_ref, key=repr)))
            if throughput is not None:
                self.latest_m = throughput
            usage = usage.name
        self.note_state("%s|%s|%s" % (self.est.detector.state().name, self.est.rate_control.state.name,
                                      "est" if out is not None else "-"))
        if out is None:
            return
        est, ssrcs = out
        self.probes["estimates"] += 1
        self.log.add("est", now_ms, est, usage)
        import math
        if type(est) is not int or est < 0 or (isinstance(est, float) and not math.isfinite(est)):
            self.violation("C15", "estimate-not-a-finite-non-negative-integer", repr(est))
            return
        try:
            fci = aiortc.rtp.pack_remb_fci(est, ssrcs)
            mant = ((fci[5] & 3) << 16) | (fci[6] << 8) | fci[7]
            if len(fci) != 8 + 4 * len(ssrcs) or (mant << (fci[5] >> 2)) > est:
                raise ValueError("bad REMB encoding")
        except Exception as exc:  # noqa
            self.violation("C15", "estimate-not-REMB-encodable:" + type(exc).__name__, "%r %r" % (est, exc))
        if len(self.seen_ssrcs) <= 255:
            wrong = sorted(ssrcs) != sorted(self.seen_ssrcs) or len(ssrcs) != len(set(ssrcs))
        else:
            # (more sources than a REMB can list: as many as it can carry, each of them seen, none twice)
            self.probes["estimates_with_more_than_255_sources_seen"] += 1
            wrong = len(ssrcs) != 255 or len(set(ssrcs)) != 255 or not set(ssrcs) <= set(self.seen_ssrcs)
        if wrong:
            self.violation("C15", "estimate-lists-wrong-ssrcs", "listed=%r seen=%r" % (ssrcs[:8], self.seen_ssrcs[:8]))
        m = self.latest_m
        if m is None:
            self.exempt["estimate_before_any_measurement"] += 1
        else:
            if usage == "OVERUSING":
                self.probes["overuse_updates"] += 1
                if est > 0.85 * m + 1:
                    self.violation("C15", "overuse:estimate-above-85-percent-of-measurement",
                                   "estimate=%d measurement=%d" % (est, m))
            if (self.prev_est is None or est > self.prev_est) and est > 1.5 * m + 10000 + 1:
                self.violation("C15", "estimate-rose-above-1.5x-measurement-plus-10k",
                               "estimate=%d previous=%r measurement=%d" % (est, self.prev_est, m))
        if usage == "UNDERUSING":
            self.probes["underuse_updates"] += 1
        if est == 0:
            self.probes["estimate_zero"] += 1
        self.prev_est = est

    async def main(self):
        await self.loop.create_task(self.sender(), context=self.ctx["S"])
        self.link_faults([self.link])

    def nontrivial(self):
        return self.probes.get("estimates", 0) > 0 and self.probes.get("arrivals", 0) > 20

    def sample(self):
        return {"arrivals": self.probes.get("arrivals", 0), "estimates": self.probes.get("estimates", 0),
                "overuse_updates": self.probes.get("overuse_updates", 0)}


# ===========================================================================
# C18  receiver statistics / RTCP receiver reports of a real RTCRtpReceiver
# ===========================================================================
class _FakeThread:
    def __init__(self, *a, **kw):
        pass

    def start(self):
        pass

    def join(self, timeout=None):
        pass


class _FakeThreading:
    Thread = _FakeThread


class _TapQueue:
    def __init__(self, *a, **kw):
        self.items = []

    def put(self, item):
        self.items.append(item)

    def get(self):
        raise RuntimeError("no decoder thread in this engine")


class _FakeQueueModule:
    Queue = _TapQueue


class StubRtpTransport:
    """What RTCRtpReceiver uses of RTCDtlsTransport."""

    def __init__(self, world):
        self.world = world
        self.state = "connected"
        self._stats_id = "transport_stub"
        self.sent = []

    def _register_rtp_receiver(self, receiver, parameters):
        self.receiver = receiver

    def _unregister_rtp_receiver(self, receiver):
        self.receiver = None

    def _get_stats(self):
        from aiortc.stats import RTCStatsReport
        return RTCStatsReport()

    async def _send_rtp(self, data):
        self.world.on_rtcp_out(bytes(data))
        d = self.world.cfg.get("send_suspend", 0.0)
        if d:
            # the transport's send suspends (TURN-like): packets keep arriving meanwhile
            self.world.faults["rtcp_send_suspended"] += 1
            await asyncio.sleep(d)


def gen_stats(ch, spec):
    cfg = {"world": "stats"}
    cfg["kind"] = ch.choice("cfg", ["audio", "audio", "video"])
    cfg["clockrate"] = 90000 if cfg["kind"] == "video" else ch.choice("cfg", [8000, 48000])
    origin = ch.choice("cfg", ["small", "wrap", "wrap", "random"])
    cfg["origin"] = origin
    cfg["nstreams"] = ch.choice("cfg", [1, 1, 2])
    cfg["streams"] = [{"ssrc": ch.randint("cfg", 1, 0xFFFFFFFF, 4242 + i), "seq0": origin16(ch, origin),
                       "ts0": origin32(ch, origin)} for i in range(cfg["nstreams"])]
    cfg["net"] = random_profile(ch, "cfg", intensity=ch.choice("cfg", [0.0, 0.05, 0.2, 0.5])).to_json()
    cfg["rtcp_ssrc"] = ch.randint("cfg", 1, 0xFFFFFFFF, 99)
    cfg["sr"] = ch.chance("cfg", 0.5)
    # video: a retransmission stream next to each media stream (its packets are counted under its own SSRC), and
    # packets whose codec payload cannot be parsed (received all the same)
    cfg["rtx"] = cfg["kind"] == "video" and ch.chance("cfg", 0.5)
    for s_ in cfg["streams"]:
        s_["rtx_ssrc"] = (s_["ssrc"] ^ 0x55555555) or 5
        s_["rtx_seq0"] = origin16(ch, origin)
    cfg["send_suspend"] = ch.choice("cfg", [0.0, 0.0, 0.0, 0.05, 0.5, 2.0])
    n = ch.choice("wl", [3, 8, 20, 40])
    # a share of histories is made of hundreds of forward jumps: dozens of sequence cycles and a cumulative
    # loss beyond what the 24-bit field can hold (the clamp)
    jumpy = ch.chance("cfg", 0.1)
    cfg["jumpy"] = jumpy
    if jumpy:
        n = ch.choice("wl", [150, 300, 450])
    ops = []
    for _ in range(n):
        r = ch.index("wl", 100)
        if jumpy and r >= 30:
            r = ch.index("wl", 12)          # mostly sequence jumps, short runs in between
        op = {"k": "run", "stream": ch.index("wl", cfg["nstreams"]),
              "frames": ch.choice("wl", [1, 5, 30, 120, 400]),
              "per": ch.choice("wl", [1, 1, 2, 5]),
              "dt": ch.choice("wl", [0.0, 0.005, 0.02, 0.02, 0.5]),
              "ts_step": ch.choice("wl", [0, 160, 960, 3000, 90000, 1 << 24])}
        if jumpy and r >= 12:
            op.update(frames=ch.choice("wl", [1, 3, 10]), per=1, dt=0.0)
        if cfg["kind"] == "video":
            op["bad_every"] = ch.choice("wl", [0, 0, 0, 3, 7])
        if r < 12:
            op = {"k": "seqjump", "stream": op["stream"], "by": ch.choice("wl", [1, 10, 1000, 20000, 32000] + ([32000] * 6 if jumpy else []))}
        elif cfg["rtx"] and 36 <= r < 44:
            op = {"k": "rtx", "stream": op["stream"], "count": ch.choice("wl", [1, 3, 10]), "dt": ch.choice("wl", [0.0, 0.02])}
        elif r < 20:
            op = {"k": "clock", "by": ch.choice("wl", [-7200.0, -30.0, -0.5, 0.5, 30.0, 3600.0, 10000.0])}
        elif r < 26:
            op = {"k": "tsjump", "stream": op["stream"], "by": ch.choice("wl", [1 << 20, 1 << 30, (1 << 31) - 5])}
        elif r < 32:
            op = {"k": "sleep", "dt": ch.choice("wl", [0.3, 2.0, 10.0])}
        elif r < 36:
            op = {"k": "getstats"}
        ops.append(op)
        if jumpy and op["k"] == "seqjump":
            # a packet or two after every jump, so that each jump is seen by the receiver
            ops.append({"k": "run", "stream": op["stream"], "frames": ch.choice("wl", [1, 2, 5]), "per": 1, "dt": 0.0,
                        "ts_step": 960})
    return cfg, ops


class RefStats:
    """RFC 3550 A.1/A.3/A.8 reference, fed the same arrivals."""

    def __init__(self):
        self.base = None
        self.ext_max = None
        self.received = 0
        self.jq4 = 0
        self.last_arr = None
        self.last_ts = None
        self.exp_prior = 0
        self.rec_prior = 0

    def add(self, seq, ts, arrival):
        self.received += 1
        if self.base is None:
            self.base = seq
            self.ext_max = seq
            in_order = True
        else:
            d = (seq - self.ext_max) & 0xFFFF
            in_order = 0 < d < 0x8000
            if in_order:
                self.ext_max += d
        if in_order:
            if self.last_ts is not None and ts != self.last_ts:
                tsd = ((ts - self.last_ts + (1 << 31)) & 0xFFFFFFFF) - (1 << 31)
                diff = abs((arrival - self.last_arr) - tsd)
                self.jq4 += diff - ((self.jq4 + 8) >> 4)
            self.last_arr = arrival
            self.last_ts = ts

    @property
    def expected(self):
        return self.ext_max - self.base + 1

    def lost(self):
        return max(-(1 << 23), min(self.expected - self.received, (1 << 23) - 1))

    def fraction(self):
        ei = self.expected - self.exp_prior
        self.exp_prior = self.expected
        ri = self.received - self.rec_prior
        self.rec_prior = self.received
        li = ei - ri
        if ei == 0 or li <= 0:
            return 0
        return (li << 8) // ei


class StatsWorld(BaseWorld):
    engine = "history_sim"

    def __init__(self, spec, ch, cfg, ops):
        super().__init__(spec, ch, cfg, ops, max_steps=4_000_000)
        rx = aiortc.rtcrtpreceiver
        self._saved = (rx.threading, rx.queue)
        rx.threading = _FakeThreading
        rx.queue = _FakeQueueModule
        self.ctx = {"S": node_context("S"), "R": node_context("R")}
        self.transport = StubRtpTransport(self)
        self.receiver = self.ctx["R"].run(rx.RTCRtpReceiver, cfg["kind"], self.transport)
        self.receiver._track = rx.RemoteStreamTrack(kind=cfg["kind"])
        self.receiver._set_rtcp_ssrc(cfg["rtcp_ssrc"])
        self.link = Link(self.loop, ch, "net.s2r", self.on_arrival, self.ctx["R"], Profile.from_json(cfg["net"]))
        self.queue = asyncio.Queue()
        self.ref = {}
        self.streams = [dict(s, seq=s["seq0"], ts=s["ts0"], sent=0, rtx_seq=s.get("rtx_seq0", 0)) for s in cfg["streams"]]
        self.pkts = []
        self.dead = False
        self.rr_seen = 0

    def cleanup(self):
        rx = aiortc.rtcrtpreceiver
        rx.threading, rx.queue = self._saved

    # -- sender ----------------------------------------------------------------
    async def sender(self):
        cfg = self.cfg
        pt = 96 if cfg["kind"] == "video" else 111
        total = 0
        for op in self.ops:
            k = op["k"]
            if k == "run":
                st = self.streams[op["stream"]]
                for _ in range(op["frames"]):
                    for j in range(op["per"]):
                        if total >= 30000:
                            break
                        total += 1
                        idx = len(self.pkts)
                        bad = bool(op.get("bad_every")) and (total % op["bad_every"] == 0)
                        self.pkts.append((st["ssrc"], st["seq"], st["ts"], pt, "bad" if bad else "ok", None))
                        st["seq"] = (st["seq"] + 1) & 0xFFFF
                        st["sent"] += 1
                        self.link.send(struct.pack("!I", idx))
                    st["ts"] = (st["ts"] + op["ts_step"]) & 0xFFFFFFFF
                    if op["dt"]:
                        await asyncio.sleep(op["dt"])
                if st["sent"] > 65536:
                    self.probes["stream_longer_than_a_cycle"] += 1
            elif k == "rtx":
                st = self.streams[op["stream"]]
                for j in range(op["count"]):
                    idx = len(self.pkts)
                    osn = (st["seq"] - 1 - j) & 0xFFFF
                    self.pkts.append((st["rtx_ssrc"], st["rtx_seq"], st["ts"], 97, "rtx", osn))
                    st["rtx_seq"] = (st["rtx_seq"] + 1) & 0xFFFF
                    self.link.send(struct.pack("!I", idx))
                    self.probes["rtx_packets_sent"] += 1
                if op.get("dt"):
                    await asyncio.sleep(op["dt"])
            elif k == "seqjump":
                st = self.streams[op["stream"]]
                st["seq"] = (st["seq"] + op["by"]) & 0xFFFF
                # let older packets land first so that lateness stays below half the space
                await asyncio.sleep(4.0)
            elif k == "tsjump":
                st = self.streams[op["stream"]]
                st["ts"] = (st["ts"] + op["by"]) & 0xFFFFFFFF
            elif k == "clock":
                self.seams.wall_offset += op["by"]
                self.faults["clock_jump"] += 1
                self.log.add("clock", op["by"])
            elif k == "sleep":
                await asyncio.sleep(op["dt"])
            elif k == "getstats":
                await asyncio.sleep(0.05)
                self.queue.put_nowait(("getstats",))
        await asyncio.sleep(6.0)
        self.queue.put_nowait(("end",))

    def on_arrival(self, data, corrupted):
        self.queue.put_nowait(("rtp", struct.unpack("!I", data)[0]))

    # -- receive pump: one packet to completion, like RTCDtlsTransport.__run ---
    async def pump(self):
        import time
        cfg = self.cfg
        while True:
            item = await self.queue.get()
            if item[0] == "end":
                return
            if self.dead:
                continue
            if item[0] == "getstats":
                await self.check_getstats()
                continue
            ssrc, seq, ts, pt, pkind, osn = self.pkts[item[1]]
            payload = b"\x10" + struct.pack("!I", item[1]) if cfg["kind"] == "video" else b"\x01\x02\x03"
            if pkind == "bad":
                payload = b"\x80"          # a VP8 descriptor that announces an extension byte and ends
                self.probes["unparsable_payloads"] += 1
            elif pkind == "rtx":
                payload = struct.pack("!H", osn) + payload
            pkt = aiortc.rtp.RtpPacket(payload_type=pt, sequence_number=seq, timestamp=ts, ssrc=ssrc,
                                       payload=payload)
            arrival = int(time.time() * cfg["clockrate"])
            ref = self.ref.setdefault(ssrc, RefStats())
            old_ext = ref.ext_max
            ref.add(seq, ts, arrival)
            if old_ext is not None and (ref.ext_max >> 16) != (old_ext >> 16):
                self.probes["sequence_cycle_completed"] += 1
            self.probes["arrivals"] += 1
            try:
                await self.receiver._handle_rtp_packet(pkt, arrival_time_ms=aiortc.clock.current_ms())
            except asyncio.CancelledError:
                raise
            except Exception as exc:  # noqa
                # outside C18 (e.g. NACK serialisation across the wrap belongs to C11/C17)
                self.violation("C11", "exception-escaped-handle-rtp:" + exc_tag(exc), repr(exc))
                self.exempt["handle_rtp_raised"] += 1

    def rtcp_task_state(self):
        t = getattr(self.receiver, "_RTCRtpReceiver__rtcp_task", None)
        if t is not None and t.done() and not t.cancelled() and t.exception() is not None:
            return t.exception()
        return None

    def on_rtcp_out(self, data):
        try:
            self._rtcp_out(data)
        except Exception as exc:  # noqa
            self.harness_note(exc)

    def _rtcp_out(self, data):
        # own byte-level parse of a (possibly compound) RTCP datagram
        pos = 0
        while pos + 4 <= len(data):
            b0, pt, words = struct.unpack_from("!BBH", data, pos)
            body = data[pos + 4: pos + 4 + 4 * words]
            pos += 4 + 4 * words
            if pt != 201:
                continue
            count = b0 & 0x1F
            if len(body) != 4 + 24 * count:
                self.violation("C18", "rr-malformed-on-the-wire", data.hex()[:80])
                return
            self.rr_seen += 1
            self.probes["receiver_reports"] += 1
            for i in range(count):
                blk = body[4 + 24 * i: 28 + 24 * i]
                ssrc, frac = struct.unpack_from("!LB", blk, 0)
                lost = int.from_bytes(blk[5:8], "big", signed=True)
                highest, jitter = struct.unpack_from("!LL", blk, 8)
                ref = self.ref.get(ssrc)
                if ref is None:
                    self.violation("C18", "rr-for-unknown-ssrc", "ssrc=%d" % ssrc)
                    continue
                if ref.expected - ref.received > (1 << 23) - 1:
                    self.probes["cumulative_loss_clamped"] += 1
                want = {"fraction_lost": ref.fraction(), "packets_lost": ref.lost(),
                        "highest_sequence": ref.ext_max & 0xFFFFFFFF, "jitter": (ref.jq4 >> 4)}
                got = {"fraction_lost": frac, "packets_lost": lost, "highest_sequence": highest, "jitter": jitter}
                if self.cfg.get("normalise"):
                    # C17 differential runs: sequence fields relative to the stream's origin
                    seq0 = next((s["seq0"] if s["ssrc"] == ssrc else s["rtx_seq0"]) for s in self.cfg["streams"]
                                if ssrc in (s["ssrc"], s.get("rtx_ssrc")))
                    rel = ((highest - ref.base) & 0xFFFFFFFF) + ((ref.base - seq0) & 0xFFFF)
                    self.log.add("rr", ssrc, tuple(sorted(dict(got, highest_sequence=rel).items())))
                else:
                    self.log.add("rr", ssrc, tuple(sorted(got.items())))
                bad = [k for k in want if want[k] != got[k]]
                if ref.ext_max > 0xFFFF:
                    self.probes["rr_after_sequence_wrap"] += 1
                if bad:
                    self.violation("C18", "rr-field-mismatch:" + ",".join(sorted(bad)),
                                   "ssrc=%d want=%r got=%r received=%d base=%d ext_max=%d" % (
                                       ssrc, want, got, ref.received, ref.base, ref.ext_max))
                    self.dead = True
                    return
            self.note_state("rr%d" % min(count, 3))

    async def check_getstats(self):
        try:
            report = await self.receiver.getStats()
        except Exception as exc:  # noqa
            self.violation("C18", "getStats-raised:" + exc_tag(exc), repr(exc))
            return
        self.probes["getstats_calls"] += 1
        for st in report.values():
            if getattr(st, "type", "") != "inbound-rtp":
                continue
            ref = self.ref.get(st.ssrc)
            if ref is None:
                continue
            # (getStats keeps one inbound-rtp entry per receiver: the last stream wins)
            if (st.packetsReceived, st.packetsLost, st.jitter) != (ref.received, ref.lost(), ref.jq4 >> 4):
                self.violation("C18", "getStats-mismatch", "ssrc=%d got=%r want=%r" % (
                    st.ssrc, (st.packetsReceived, st.packetsLost, st.jitter), (ref.received, ref.lost(), ref.jq4 >> 4)))

    async def main(self):
        cfg = self.cfg
        from aiortc.rtcrtpparameters import (RTCRtpCodecParameters, RTCRtpDecodingParameters,
                                             RTCRtpReceiveParameters)
        if cfg["kind"] == "video":
            codec = RTCRtpCodecParameters(mimeType="video/VP8", clockRate=90000, payloadType=96)
        else:
            codec = RTCRtpCodecParameters(mimeType="audio/opus" if cfg["clockrate"] == 48000 else "audio/PCMU",
                                          clockRate=cfg["clockrate"], channels=2 if cfg["clockrate"] == 48000 else 1,
                                          payloadType=111)
        codecs = [codec]
        if cfg.get("rtx"):
            from aiortc.rtcrtpparameters import RTCRtpRtxParameters
            codecs.append(RTCRtpCodecParameters(mimeType="video/rtx", clockRate=90000, payloadType=97, parameters={"apt": 96}))
            encodings = [RTCRtpDecodingParameters(ssrc=s["ssrc"], payloadType=codec.payloadType,
                                                  rtx=RTCRtpRtxParameters(ssrc=s["rtx_ssrc"])) for s in cfg["streams"]]
        else:
            encodings = [RTCRtpDecodingParameters(ssrc=s["ssrc"], payloadType=codec.payloadType) for s in cfg["streams"]]
        params = RTCRtpReceiveParameters(codecs=codecs, encodings=encodings)

        async def start():
            await self.receiver.receive(params)

        await self.loop.create_task(start(), context=self.ctx["R"])
        pump = self.loop.create_task(self.pump(), context=self.ctx["R"])
        await self.loop.create_task(self.sender(), context=self.ctx["S"])
        await pump
        exc = self.rtcp_task_state()
        if exc is not None:
            self.violation("C18", "receiver-report-task-died:" + exc_tag(exc), repr(exc))
        elif self.ref and self.rr_seen == 0 and self.loop.time() > 8.0:
            self.violation("C18", "no-receiver-report-sent", "%.1f s with traffic" % self.loop.time())
        stop = self.loop.create_task(self.receiver.stop(), context=self.ctx["R"])
        try:
            await asyncio.wait_for(stop, 30.0)
        except Exception as exc:  # noqa
            self.exempt["stop_failed:" + type(exc).__name__] += 1
        self.link_faults([self.link])

    def nontrivial(self):
        return self.rr_seen > 0 and self.probes.get("arrivals", 0) > 5

    def sample(self):
        return {"arrivals": self.probes.get("arrivals", 0), "receiver_reports": self.rr_seen}


# ===========================================================================
# C12  RtpRouter (direct mode)
# ===========================================================================
class FakeParty:
    """A receiver or sender; identity by serial so that set order is a
    function of creation order, not of memory addresses."""

    def __init__(self, name, serial):
        self.name = name
        self.serial = serial
        self._ssrc = None

    def __hash__(self):
        return self.serial

    def __eq__(self, other):
        return self is other

    def __repr__(self):
        return self.name

    # what RTCDtlsTransport calls on the parties it routes to (transport mode); like the real sender, only the
    # handling of a NACK may suspend (the retransmission goes out through a transport whose send can suspend)
    world = None

    async def _handle_rtcp_packet(self, packet):
        self.world.delivered(self, "rtcp", packet)
        d = self.world.cfg.get("nack_suspend", 0.0)
        if d is not None and isinstance(packet, aiortc.rtp.RtcpRtpfbPacket) and self.name.startswith("s"):
            self.world.probes["nack_handlers_suspended"] += 1
            await asyncio.sleep(d)

    async def _handle_rtp_packet(self, packet, arrival_time_ms=0):
        self.world.delivered(self, "rtp", packet)


SSRC_POOL = [11, 22, 33, 44, 55, 66, 0, 0xFFFFFFFF]
PT_POOL = [0, 8, 96, 97, 98, 111, 127]


def gen_router(ch, spec):
    cfg = {"world": "router", "overlap_ssrc": ch.chance("cfg", 0.25)}
    # transport mode: serialised packets go through RTCDtlsTransport._handle_rtp_data / _handle_rtcp_data (compound
    # RTCP included), one datagram at a time as in its receive loop, while registrations change concurrently
    cfg["transport"] = ch.chance("cfg", 0.3)
    cfg["nack_suspend"] = ch.choice("cfg", [None, 0.0, 0.01, 0.3]) if cfg["transport"] else None
    cfg["net"] = random_profile(ch, "cfg", intensity=ch.choice("cfg", [0.0, 0.1, 0.4])).to_json()
    n = ch.choice("wl", [5, 15, 40, 100])
    ops = []
    for _ in range(n):
        r = ch.index("wl", 100)
        dt = ch.choice("wl", [0.0, 0.0, 0.001, 0.01, 0.2])
        if r < 14:
            ops.append({"k": "reg_r", "who": ch.index("wl", 4),
                        "ssrcs": sorted({ch.choice("wl", SSRC_POOL) for _ in range(ch.index("wl", 3))}),
                        "pts": sorted({ch.choice("wl", PT_POOL) for _ in range(1 + ch.index("wl", 3))}),
                        "mid": ch.choice("wl", [None, "0", "1"]), "dt": dt})
        elif r < 22:
            ops.append({"k": "unreg_r", "who": ch.index("wl", 4), "dt": dt})
        elif r < 30:
            ops.append({"k": "reg_s", "who": ch.index("wl", 3), "ssrc": ch.choice("wl", SSRC_POOL), "dt": dt})
        elif r < 36:
            ops.append({"k": "unreg_s", "who": ch.index("wl", 3), "dt": dt})
        elif r < 70:
            ops.append({"k": "rtp", "ssrc": ch.choice("wl", SSRC_POOL + [77, 88]), "pt": ch.choice("wl", PT_POOL + [5]),
                        "dt": dt})
        else:
            def one():
                return {"k": "rtcp", "type": ch.choice("wl", ["sr", "rr", "bye", "nack", "pli", "remb", "sdes", "fir", "remb_bad"]),
                        "ssrc": ch.choice("wl", SSRC_POOL + [77]),
                        "refs": [ch.choice("wl", SSRC_POOL + [77]) for _ in range(ch.index("wl", 4))], "dt": dt}
            op = one()
            if cfg["transport"] and ch.chance("wl", 0.5):
                # a compound datagram; a NACK in front so that what follows is handled after a suspension
                subs = [one() for _ in range(ch.choice("wl", [2, 3, 4]))]
                if ch.chance("wl", 0.6):
                    subs[0]["type"] = "nack"
                op = {"k": "compound", "subs": subs, "dt": dt}
            ops.append(op)
    return cfg, ops


class RouterWorld(BaseWorld):
    engine = "history_sim"

    def __init__(self, spec, ch, cfg, ops):
        super().__init__(spec, ch, cfg, ops)
        self.router = aiortc.rtcdtlstransport.RtpRouter()
        self.ctx = {"APP": node_context("APP"), "NET": node_context("NET"), "R": node_context("R")}
        self.link = Link(self.loop, ch, "net.in", self.on_arrival, self.ctx["R"], Profile.from_json(cfg["net"]))
        self.receivers = [FakeParty("r%d" % i, 100 + i) for i in range(4)]
        self.senders = [FakeParty("s%d" % i, 200 + i) for i in range(3)]
        for party in self.receivers + self.senders:
            party.world = self
        self.rx_queue = asyncio.Queue()

        class TransportStub:
            """The attributes RTCDtlsTransport._handle_rtp_data / _handle_rtcp_data use."""
            _rtp_router = self.router
            _rtp_header_extensions_map = aiortc.rtp.HeaderExtensionsMap()

            def _RTCDtlsTransport__log_debug(self, *a):
                pass
        self.stub = TransportStub()
        # reference model
        self.r_reg = {}        # receiver -> {"ssrcs": set, "pts": set}
        self.latched = {}      # ssrc -> receiver
        self.amb_r = set()     # ssrcs ever claimed by two receivers at once
        self.s_reg = {}        # sender -> set(ssrc)
        self.amb_s = set()
        self.pkts = []

    # -- model helpers ------------------------------------------------------------
    def explicit(self, ssrc):
        return {r for r, d in self.r_reg.items() if ssrc in d["ssrcs"]}

    def claimants(self, ssrc):
        """Receivers registered for the SSRC; an SSRC that merely stuck to a receiver belongs to it only as long as
        nobody registers it ("the one registered for its SSRC")."""
        c = self.explicit(ssrc)
        if not c and ssrc in self.latched:
            c = {self.latched[ssrc]}
        return c

    def s_claimants(self, ssrc):
        return {s for s, d in self.s_reg.items() if ssrc in d}

    def apply(self, op):
        k = op["k"]
        rt = self.router
        if k == "reg_r":
            r = self.receivers[op["who"]]
            ssrcs = list(op["ssrcs"])
            if not self.cfg["overlap_ssrc"]:
                ssrcs = [s for s in ssrcs if not (self.explicit(s) - {r})]
            rt.register_receiver(r, ssrcs, list(op["pts"]), mid=op["mid"])
            d = self.r_reg.setdefault(r, {"ssrcs": set(), "pts": set()})
            d["ssrcs"].update(ssrcs)
            d["pts"].update(op["pts"])
            for s in ssrcs:
                if self.latched.get(s) not in (None, r):
                    # early media had stuck to another receiver; the registration decides from now on
                    del self.latched[s]
                    self.probes["registration_over_stuck_ssrc"] += 1
                if len(self.explicit(s)) > 1:
                    self.amb_r.add(s)
            self.log.add("reg_r", r.name, tuple(ssrcs), tuple(op["pts"]))
        elif k == "unreg_r":
            r = self.receivers[op["who"]]
            rt.unregister_receiver(r)
            self.r_reg.pop(r, None)
            for s in [s for s, x in self.latched.items() if x is r]:
                del self.latched[s]
            self.log.add("unreg_r", r.name)
        elif k == "reg_s":
            s = self.senders[op["who"]]
            ssrc = op["ssrc"]
            if not self.cfg["overlap_ssrc"] and (self.s_claimants(ssrc) - {s}):
                return
            s._ssrc = ssrc
            rt.register_sender(s, ssrc)
            self.s_reg.setdefault(s, set()).add(ssrc)
            if len(self.s_claimants(ssrc)) > 1:
                self.amb_s.add(ssrc)
            self.log.add("reg_s", s.name, ssrc)
        elif k == "unreg_s":
            s = self.senders[op["who"]]
            rt.unregister_sender(s)
            self.s_reg.pop(s, None)
            self.log.add("unreg_s", s.name)

    def on_arrival(self, data, corrupted):
        try:
            op = self.pkts[struct.unpack("!I", data)[0]]
            if self.cfg.get("transport"):
                self.rx_queue.put_nowait(op)
            else:
                self._arrival(op)
        except Exception as exc:  # noqa
            self.harness_note(exc)

    def delivered(self, party, kind, packet):
        """Transport mode: the transport hands a packet to a party.  Whatever the interleaving of registrations,
        unregistrations and packets, a party that is not registered at that instant must not get one."""
        self.probes["deliveries_through_transport"] += 1
        self.log.add("delivered", kind, party.name)
        registered = party in self.r_reg or party in self.s_reg
        if not registered and not self.violations:
            self.violation("C12", "%s-delivered-to-unregistered-party" % kind,
                           "%r got %s after it had been unregistered" % (party, type(packet).__name__))
        if kind == "rtp" and registered and packet.payload_type not in self.r_reg.get(party, {"pts": ()})["pts"] \
                and not self.violations:
            self.violation("C12", "rtp-delivered-to-receiver-not-accepting-payload-type", "%r pt=%d" % (party, packet.payload_type))

    async def pump(self):
        """One datagram to completion, then the next (RTCDtlsTransport.__run)."""
        T = aiortc.rtcdtlstransport.RTCDtlsTransport
        while True:
            op = await self.rx_queue.get()
            if op is None:
                return
            try:
                if op["k"] == "rtp":
                    pkt = aiortc.rtp.RtpPacket(payload_type=op["pt"], ssrc=op["ssrc"], sequence_number=1, payload=b"x")
                    await T._handle_rtp_data(self.stub, pkt.serialize(self.stub._rtp_header_extensions_map), arrival_time_ms=0)
                else:
                    subs = op["subs"] if op["k"] == "compound" else [op]
                    data = b"".join(bytes(self.build_rtcp(x)[0]) for x in subs)
                    if len(subs) > 1:
                        self.probes["compound_rtcp_datagrams"] += 1
                    await T._handle_rtcp_data(self.stub, data)
                self.probes["datagrams_through_transport"] += 1
            except asyncio.CancelledError:
                raise
            except Exception as exc:  # noqa
                self.violation("C12", "transport-handler-raised:" + exc_tag(exc), repr(exc))
                return

    def build_rtcp(self, op):
        R = aiortc.rtp
        t, ssrc, refs = op["type"], op["ssrc"], op["refs"]

        def info(s):
            return R.RtcpReceiverInfo(ssrc=s, fraction_lost=0, packets_lost=0, highest_sequence=0, jitter=0, lsr=0, dlsr=0)
        if t == "sr":
            return R.RtcpSrPacket(ssrc=ssrc, sender_info=R.RtcpSenderInfo(ntp_timestamp=0, rtp_timestamp=0,
                                                                          packet_count=0, octet_count=0),
                                  reports=[info(s) for s in refs]), {"r": [ssrc], "s": refs}
        if t == "rr":
            return R.RtcpRrPacket(ssrc=ssrc, reports=[info(s) for s in refs]), {"r": [], "s": refs}
        if t == "bye":
            return R.RtcpByePacket(sources=list(refs)), {"r": refs, "s": []}
        if t == "nack":
            p = R.RtcpRtpfbPacket(fmt=R.RTCP_RTPFB_NACK, ssrc=ssrc, media_ssrc=refs[0] if refs else 5)
            p.lost = [1, 2]
            return p, {"r": [], "s": [p.media_ssrc]}
        if t in ("pli", "fir"):
            p = R.RtcpPsfbPacket(fmt=R.RTCP_PSFB_PLI if t == "pli" else R.RTCP_PSFB_FIR, ssrc=ssrc,
                                 media_ssrc=refs[0] if refs else 5)
            return p, {"r": [], "s": [p.media_ssrc]}
        if t == "remb":
            fci = b"REMB" + struct.pack("!BBH", len(refs), 0, 1000) + b"".join(struct.pack("!L", s) for s in refs)
            return R.RtcpPsfbPacket(fmt=R.RTCP_PSFB_APP, ssrc=ssrc, media_ssrc=0, fci=fci), {"r": [], "s": [0] + refs}
        if t == "remb_bad":
            return R.RtcpPsfbPacket(fmt=R.RTCP_PSFB_APP, ssrc=ssrc, media_ssrc=0, fci=b"REMX\x01\x00\x00\x01"), \
                {"r": [], "s": [0]}
        return R.RtcpSdesPacket(chunks=[]), {"r": [], "s": []}

    def _arrival(self, op):
        rt = self.router
        if op["k"] == "rtp":
            pkt = aiortc.rtp.RtpPacket(payload_type=op["pt"], ssrc=op["ssrc"], sequence_number=1)
            try:
                got = rt.route_rtp(pkt)
            except Exception as exc:  # noqa
                self.violation("C12", "route_rtp-raised:" + exc_tag(exc), repr(exc))
                return
            self.probes["rtp_routed"] += 1
            ssrc, pt = op["ssrc"], op["pt"]
            accept = {r for r, d in self.r_reg.items() if pt in d["pts"]}
            cl = self.claimants(ssrc)
            self.log.add("rtp", ssrc, pt, getattr(got, "name", None))
            if got is not None and got not in self.r_reg:
                self.violation("C12", "rtp-routed-to-unregistered-receiver", "%r ssrc=%d pt=%d" % (got, ssrc, pt))
                return
            if ssrc in self.amb_r:
                self.exempt["ambiguous_ssrc_claim"] += 1
                if got is not None and got not in accept:
                    self.violation("C12", "rtp-routed-to-receiver-not-accepting-payload-type", "%r" % got)
                if not cl and got is not None and len(accept) == 1:
                    self.latched[ssrc] = got
                return
            if cl:
                (c,) = tuple(cl) if len(cl) == 1 else (None,)
                want = c if c in accept else None
                self.probes["rtp_known_ssrc"] += 1
            elif len(accept) == 1:
                (want,) = tuple(accept)
                self.latched[ssrc] = want
                self.probes["ssrc_latched"] += 1
            else:
                want = None
                self.probes["rtp_dropped_%s" % ("ambiguous" if accept else "unknown")] += 1
            if got is not want:
                self.violation("C12", "rtp-misrouted:%s" % ("known-ssrc" if cl else "unknown-ssrc"),
                               "ssrc=%d pt=%d got=%r want=%r claimants=%r accepting=%r" % (
                                   ssrc, pt, got, want, sorted(map(repr, cl)), sorted(map(repr, accept))))
        else:
            pkt, refs = self.build_rtcp(op)
            try:
                got = rt.route_rtcp(pkt)
            except Exception as exc:  # noqa
                self.violation("C12", "route_rtcp-raised:" + exc_tag(exc), repr(exc))
                return
            self.probes["rtcp_routed"] += 1
            self.log.add("rtcp", op["type"], tuple(sorted(map(repr, got))))
            for g in got:
                if g not in self.r_reg and g not in self.s_reg:
                    self.violation("C12", "rtcp-routed-to-unregistered-party", "%r for %s" % (g, op["type"]))
                    return
            want = set()
            lenient = False
            for s in refs["r"]:
                if s in self.amb_r:
                    lenient = True
                c = self.claimants(s)
                if len(c) == 1:
                    want |= c
            for s in refs["s"]:
                if s in self.amb_s:
                    lenient = True
                c = self.s_claimants(s)
                if len(c) == 1:
                    want |= c
            if lenient:
                self.exempt["ambiguous_ssrc_claim"] += 1
                return
            if set(got) != want:
                self.violation("C12", "rtcp-misrouted:" + op["type"], "got=%r want=%r refs=%r" % (
                    sorted(map(repr, got)), sorted(map(repr, want)), refs))
            elif want:
                self.probes["rtcp_delivered_%s" % op["type"]] += 1
        self.note_state("r%d|s%d|l%d" % (len(self.r_reg), len(self.s_reg), min(len(self.latched), 3)))

    async def main(self):
        async def app():
            for op in self.ops:
                if op.get("dt"):
                    await asyncio.sleep(op["dt"])
                if op["k"] in ("rtp", "rtcp", "compound"):
                    if op["k"] == "compound" and not self.cfg.get("transport"):
                        continue
                    self.pkts.append(op)
                    self.link.send(struct.pack("!I", len(self.pkts) - 1))
                else:
                    # registrations happen on the receiving endpoint's own loop
                    self.loop.call_soon(self.apply, op, context=self.ctx["R"])
            await asyncio.sleep(5.0)

        pump = self.loop.create_task(self.pump(), context=self.ctx["R"]) if self.cfg.get("transport") else None
        await self.loop.create_task(app(), context=self.ctx["APP"])
        if pump is not None:
            self.rx_queue.put_nowait(None)
            await pump
        self.link_faults([self.link])

    def nontrivial(self):
        n = self.probes.get("rtp_routed", 0) + self.probes.get("rtcp_routed", 0) + self.probes.get("datagrams_through_transport", 0)
        return n > 3 and len(self.ops) > 5

    def sample(self):
        return {"rtp": self.probes.get("rtp_routed", 0), "rtcp": self.probes.get("rtcp_routed", 0)}


# ===========================================================================
WORLDS = {"jb": (gen_jb, JbWorld), "bwe": (gen_bwe, BweWorld), "stats": (gen_stats, StatsWorld),
          "router": (gen_router, RouterWorld)}


def run(spec):
    gen, cls = WORLDS[spec["world"]]
    return run_world(spec, gen, cls)
