"""media_sim: a real RTCRtpSender (packet track -> real VP8 / H.264 packetiser)
-> real RTCDtlsTransport/SRTP pair over SimIceConnection/SimNet -> real
RTCRtpReceiver (router, RTX unwrap, NACK generator, jitter buffer), with the
decoder seam tapping every `(codec, encoded frame)` handed to the decoder.
Decides C11; the same transport scaffolding serves dtls_sim (C04).
"""

import asyncio
import fractions
import re
import struct
from collections import Counter

from ..seams import setup_import_path

setup_import_path()
import aiortc.rtcicetransport as icemod  # noqa: E402
import aiortc.rtcdtlstransport as dtlsmod  # noqa: E402
import aiortc.rtcrtpreceiver as rxmod  # noqa: E402
import aiortc.rtcrtpsender as txmod  # noqa: E402
import av  # noqa: E402
from aiortc.mediastreams import MediaStreamError, MediaStreamTrack  # noqa: E402
from aiortc.rtcrtpparameters import (RTCRtcpParameters, RTCRtpCodecParameters, RTCRtpDecodingParameters,  # noqa: E402
                                     RTCRtpEncodingParameters, RTCRtpHeaderExtensionParameters,
                                     RTCRtpReceiveParameters, RTCRtpRtxParameters, RTCRtpSendParameters)

from .. import fakes  # noqa: E402
from ..net import Profile, random_profile  # noqa: E402
from .common import BaseWorld, exc_tag, run_world  # noqa: E402

ABS_SEND_TIME = "http://www.webrtc.org/experiments/rtp-hdrext/abs-send-time"
MID_URI = "urn:ietf:params:rtp-hdrext:sdes:mid"


class TransportPair:
    """Two nodes, each with RTCIceGatherer/RTCIceTransport (fake aioice
    connection) and a real RTCDtlsTransport; connects them."""

    def __init__(self, world, names=("S", "R")):
        self.world = world
        self.names = names
        fab = world.fabric
        self.ctx = {n: fab.context(n) for n in names}
        self.gatherer, self.ice, self.dtls = {}, {}, {}
        self.start_errors = []
        certs = fakes.certificate_pool()
        for i, n in enumerate(names):
            self.gatherer[n] = self.ctx[n].run(icemod.RTCIceGatherer, [])
            self.ice[n] = self.ctx[n].run(icemod.RTCIceTransport, self.gatherer[n])
            self.dtls[n] = self.ctx[n].run(dtlsmod.RTCDtlsTransport, self.ice[n], [certs[i % len(certs)]])
        # the first node is ICE-controlling (hence DTLS server under role "auto")
        self.ice[names[0]]._connection.ice_controlling = True

    async def connect(self, dtls_params=None):
        w = self.world
        a, b = self.names

        async def side(n, peer):
            await self.gatherer[n].gather()
            for c in self.gatherer[peer].getLocalCandidates():
                await self.ice[n].addRemoteCandidate(c)
            await self.ice[n].start(self.gatherer[peer].getLocalParameters())
            params = (dtls_params or {}).get(n) or self.dtls[peer].getLocalParameters()
            try:
                await self.dtls[n].start(params)
            except asyncio.CancelledError:
                raise
            except Exception as exc:  # noqa: an observation for the world's oracle, not a harness failure
                self.start_errors.append((n, exc))

        # gather both first so that candidates exist when they are exchanged
        await asyncio.gather(*[w.loop.create_task(self.gatherer[n].gather(), context=self.ctx[n]) for n in self.names])
        await asyncio.gather(w.loop.create_task(side(a, b), context=self.ctx[a]),
                             w.loop.create_task(side(b, a), context=self.ctx[b]))


class MediaBase(BaseWorld):
    """Seams shared by the media worlds: fake ICE, deterministic DTLS timers,
    decoder seam."""

    def __init__(self, spec, ch, cfg, ops, **kw):
        super().__init__(spec, ch, cfg, ops, **kw)
        fakes.patch_dtls_timers()
        # objects kept in sets by aiortc (RtpRouter recipients, the peer connection's transports): their hash
        # is a construction serial, so that set iteration is a function of creation order, not of addresses
        for cls in (dtlsmod.RTCDtlsTransport, rxmod.RTCRtpReceiver, txmod.RTCRtpSender):
            fakes.SerialHash.install(cls)
            cls._sim_serial_counter["n"] = 0
        self.fabric = fakes.IceFabric(self.loop, ch, spec["seed_int"])
        self.fabric.turn = cfg.get("turn")
        self.fabric.distinct_credentials = bool(cfg.get("distinct_ice"))
        self._saved = [(icemod, "Connection", icemod.Connection)]
        icemod.Connection = self.fabric.make_connection

    def rebind(self, mod, name, value):
        self._saved.append((mod, name, getattr(mod, name)))
        setattr(mod, name, value)

    def link_faults(self, links):
        super().link_faults(links)
        if self.fabric.turn_suspensions:
            self.faults["send_suspended_in_transport"] += self.fabric.turn_suspensions

    def cleanup(self):
        for mod, name, val in reversed(self._saved):
            setattr(mod, name, val)
        self._saved = []


class SimPacketTrack(MediaStreamTrack):
    kind = "video"

    def __init__(self, world):
        super().__init__()
        self.world = world
        self.i = 0

    async def recv(self):
        w = self.world
        if self.i >= len(w.frames_plan):
            await asyncio.sleep(3600.0)
            raise MediaStreamError
        size, dt = w.frames_plan[self.i]
        if dt:
            await asyncio.sleep(dt)
        data = w.frame_bytes(self.i, size)
        pkt = av.Packet(data)
        pkt.pts = w.cfg["pts0"] + 3000 * self.i
        pkt.time_base = fractions.Fraction(1, 90000)
        self.i += 1
        return pkt


FRAME_MARK = re.compile(rb"F(\d{5}):")


def gen_media(ch, spec):
    cfg = {"world": "media"}
    cfg["mode"] = ch.choice("cfg", ["safety", "safety", "live"])
    cfg["codec"] = ch.choice("cfg", ["VP8", "VP8", "H264"])
    cfg["rtx"] = ch.chance("cfg", 0.6)
    origin = ch.choice("cfg", ["low", "wrap", "wrap", "random"])
    cfg["origin"] = origin
    if origin == "low":
        cfg["seq0"], cfg["ts0"] = ch.randint("cfg", 0, 300, 1), ch.randint("cfg", 0, 100000, 5)
    elif origin == "wrap":
        cfg["seq0"], cfg["ts0"] = 65535 - ch.randint("cfg", 8, 300, 20), 0xFFFFFFFF - ch.randint("cfg", 0, 600000, 9)
    else:
        cfg["seq0"], cfg["ts0"] = ch.randint("cfg", 0, 65535, 777), ch.randint("cfg", 0, 0xFFFFFFFF, 777)
    cfg["rtx_seq0"] = ch.choice("cfg", [5, 65530, 30000])
    cfg["pts0"] = ch.choice("cfg", [0, 0, 3000, 0xFFFF0000])
    if origin == "wrap" and ch.chance("cfg", 0.35):
        # one frame's RTP timestamp lands exactly on 0 (legal, and falsy)
        cfg["ts0"] = (-3000 * ch.choice("cfg", [1, 2, 5, 9]) - cfg["pts0"]) % (1 << 32)
        cfg["ts_zero"] = True
    cfg["ssrc"] = ch.randint("cfg", 1, 0xFFFFFFFF, 4321)
    cfg["rtx_ssrc"] = (cfg["ssrc"] ^ 0x5A5A5A5A) or 7
    cfg["sched"] = ch.chance("cfg", 0.7, True)
    cfg["stall_rate"] = ch.choice("cfg", [0.0, 0.0, 0.002])
    cfg["stall_max"] = ch.choice("cfg", [0.02, 0.3])
    cfg["turn"] = fakes.gen_turn(ch, ["S", "R"])
    if cfg["turn"] is None and ch.chance("cfg", 0.1):
        # a paced sender: every packet (or every other one) takes a moment to leave, so that feedback about the first
        # packets of a frame can come back while its last ones are still being sent
        cfg["turn"] = {"node": "S", "nth": ch.choice("cfg", [1, 1, 2]), "dur": ch.choice("cfg", [0.0, 0.002, 0.01])}
    if ch.chance("cfg", 0.12):
        # a few feedback packets arrive seconds late: what they ask for may have left the sender's history
        cfg["hold_feedback"] = {"cls": "srtcp", "from": ch.randint("cfg", 2, 40, 5), "count": ch.choice("cfg", [1, 3, 8]),
                                "dur": ch.choice("cfg", [1.5, 3.0, 6.0])}
    base = ch.choice("cfg", [0.002, 0.02, 0.08])
    if cfg["mode"] == "live":
        # faults on first transmissions only; feedback and retransmissions get through
        p = Profile(base=base)
        # (0.0: the targeted losses below are then the only ones - nothing later repeats a request that went wrong)
        p.drop = ch.choice("cfg", [0.0, 0.01, 0.05, 0.15])
        p.burst_enter = ch.choice("cfg", [0.0, 0.0, 0.01])
        p.burst_exit = 0.5
        p.reorder = ch.choice("cfg", [0.0, 0.05])
        p.reorder_max = 0.02
        cfg["s2r_first"] = p.to_json()
        cfg["s2r_other"] = Profile(base=base).to_json()
        cfg["r2s"] = Profile(base=base).to_json()
    else:
        inten = ch.choice("cfg", [0.02, 0.1, 0.3])
        cfg["s2r_first"] = random_profile(ch, "cfg", intensity=inten).to_json()
        cfg["s2r_other"] = random_profile(ch, "cfg", intensity=inten).to_json()
        cfg["r2s"] = random_profile(ch, "cfg", intensity=inten).to_json()
        for k in ("s2r_first", "s2r_other", "r2s"):
            cfg[k]["base"] = base
            cfg[k]["reorder_max"] = min(cfg[k]["reorder_max"], 1.0)
    # first transmissions that are certainly lost, placed around a chosen point of the sequence space
    # (the 65535->0 wrap when the origin is just below it): losses on both sides of the wrap, close together
    cfg["hit_at"] = (65536 - cfg["seq0"]) if origin == "wrap" else ch.randint("cfg", 10, 300, 40)
    cfg["hits"] = ch.choice("cfg", [[], [], [0], [-1], [-1, 0], [-2, 1], [-1, 0, 1], [-3, 4], [-8, 8], [-1, 16], [-16, 0]])
    n = ch.choice("wl", [10, 30, 60, 120])
    if cfg["mode"] == "live" and ch.chance("cfg", 0.2):
        cfg["outage"] = [ch.choice("cfg", [0.3, 0.8]), ch.choice("cfg", [2.0, 4.0])]
        n = 250
    ops = []
    maxpk = 8
    for _ in range(n):
        npk = ch.choice("wl", [1, 1, 2, 3, 5, maxpk])
        size = max(1, npk * 1150 - ch.randint("wl", 0, 1100, 0)) if npk > 1 else ch.choice("wl", [1, 2, 50, 600, 1100])
        ops.append({"size": size, "dt": ch.choice("wl", [0.0, 0.01, 0.033, 0.033, 0.1])})
    return cfg, ops


class MediaWorld(MediaBase):
    engine = "media_sim"

    def __init__(self, spec, ch, cfg, ops):
        super().__init__(spec, ch, cfg, ops, max_steps=3_000_000)
        self.frames_plan = [(op["size"], op["dt"]) for op in ops] + [(700, 0.033)] * 40   # tail keeps traffic flowing
        self.n_real = len(ops)
        self.sent = []            # per frame: {"ts":, "chunks":[bytes], "full": bytes}
        self.first_tx = {}        # seq -> (payload bytes, timestamp)
        self.tapped = []          # (k, partial)
        self.last_k = -1
        self.partial_ok = True
        self.discards = 0
        self.retx = 0
        self.seen_rtp = set()
        self.late100 = False
        self.jb_seen, self.jb_adds, self.requested_again = {}, 0, set()
        self.requested_too_late = set()
        self.jb_max = None
        self.n_first = 0
        # decoder seam + origin seams
        world = self

        class TapQueue:
            def __init__(self, *a, **kw):
                pass

            def put(self, item):
                try:
                    world.on_tap(item)
                except Exception as exc:  # noqa
                    world.harness_note(exc)

        class QueueMod:
            Queue = TapQueue

        from .history_sim import _FakeThreading
        self.rebind(rxmod, "threading", _FakeThreading)
        self.rebind(rxmod, "queue", QueueMod)
        seqs = [cfg["rtx_seq0"], cfg["seq0"]]
        r32 = [cfg["ssrc"], cfg["rtx_ssrc"], cfg["ts0"]]
        real_seq, real_r32 = txmod.random_sequence_number, txmod.random32
        self.rebind(txmod, "random_sequence_number", lambda: seqs.pop(0) if seqs else real_seq())
        self.rebind(txmod, "random32", lambda: r32.pop(0) if r32 else real_r32())
        # network: classes on the media path
        fab = self.fabric
        if cfg.get("hold_feedback"):
            fab.holds[("R", "S")] = cfg["hold_feedback"]
        self.hit_seqs = {(cfg["seq0"] + cfg.get("hit_at", 0) + o) & 0xFFFF for o in cfg.get("hits", [])}
        fab.class_profiles[("S", "R")] = {"first": Profile.from_json(cfg["s2r_first"]),
                                          "hit": Profile(base=cfg["s2r_first"]["base"], drop=1.0),
                                          "lock-on": Profile(base=cfg["s2r_first"]["base"], fifo=True),
                                          "retx": Profile.from_json(cfg["s2r_other"]),
                                          "srtcp": Profile.from_json(cfg["s2r_other"])}
        fab.class_profiles[("R", "S")] = {"srtcp": Profile.from_json(cfg["r2s"])}
        fab.classify = self.classify

    def classify(self, data):
        c = fakes.classify_datagram(data)
        if c != "srtp" or len(data) < 12:
            return c
        key = data[1:4] + data[8:12]     # payload type, sequence number, SSRC (clear in SRTP)
        pt = data[1] & 0x7F
        if pt == 97 or key in self.seen_rtp:
            return "retx"
        self.seen_rtp.add(key)
        self.n_first += 1
        if self.n_first <= 6:
            return "lock-on"            # SRTP rollover counter locks on: unfaulted
        if pt == 96 and self.hit_seqs and struct.unpack_from("!H", data, 2)[0] in self.hit_seqs:
            self.probes["targeted_losses"] += 1
            return "hit"
        return "first"

    def frame_bytes(self, i, size):
        import random
        rnd = random.Random(i * 7919 + 13)
        if self.cfg["codec"] == "H264":
            # Annex-B bitstream: a few NAL units, no start-code emulation inside
            out = b""
            left = max(size, 8)
            first = True
            while left > 0:
                n = min(left, rnd.choice([5, 40, 300, 1100, 2500, 9000]))
                body = bytes(rnd.randrange(1, 256) for _ in range(max(n - 1, 1)))
                hdr = bytes([0x65 if first else rnd.choice([0x41, 0x61, 0x06])])
                mark = (b"F%05d:" % i) if first else b""
                out += b"\x00\x00\x00\x01" + hdr + mark + body
                left -= n
                first = False
            return out
        head = b"F%05d:" % i
        body = bytes(rnd.randrange(1, 256) for _ in range(max(0, size - len(head))))
        return (head + body)[:max(size, len(head))]

    # -- observers ------------------------------------------------------------------------
    def on_encoded(self, frame_index, enc):
        codec = self.cfg["codec"]
        if codec == "H264":
            from aiortc.codecs.h264 import h264_depayload
            chunks = [h264_depayload(p) for p in enc.payloads]
            full = b"".join(chunks)
        else:
            # independent of vp8_depayload: the descriptor is whatever precedes the next slice of the frame
            src = self.frame_bytes(frame_index, self.frames_plan[frame_index][0])
            chunks, pos = [], 0
            for p in enc.payloads:
                d = next((d for d in range(1, 7) if p[d:] == src[pos:pos + len(p) - d]), None)
                if d is None:
                    raise AssertionError("cannot align payload with frame bytes")
                chunks.append(p[d:])
                pos += len(p) - d
            full = b"".join(chunks)
            if full != src:
                raise AssertionError("packetiser output does not cover the frame")
        self.sent.append({"ts": enc.timestamp, "chunks": chunks, "full": full})
        self.probes["frames_sent"] += 1
        self.probes["frames_%d_packets" % min(len(chunks), 9)] += 1

    def on_sender_out(self, data):
        """Plaintext RTP/RTCP leaving the sender (before SRTP)."""
        if len(data) < 12 or 192 <= data[1] <= 208:
            return
        pt = data[1] & 0x7F
        seq = struct.unpack_from("!H", data, 2)[0]
        ts, ssrc = struct.unpack_from("!LL", data, 4)
        hdr = 12 + 4 * (data[0] & 0x0F)
        if data[0] & 0x10:
            hdr += 4 + 4 * struct.unpack_from("!H", data, hdr + 2)[0]
        payload = data[hdr:]
        if pt == 97:
            self.probes["rtx_packets_sent"] += 1
            self.retx += 1
            if ssrc != self.cfg["rtx_ssrc"] or len(payload) < 2:
                self.violation("C11", "rtx:wrong-ssrc-or-empty", "ssrc=%d" % ssrc)
                return
            osn = struct.unpack_from("!H", payload, 0)[0]
            orig = self.first_tx.get(osn)
            if orig is None or orig[0] != payload[2:] or orig[1] != ts:
                self.violation("C11", "rtx:does-not-carry-the-original-packet", "osn=%d known=%s" % (osn, orig is not None))
            return
        if seq in self.first_tx and self.first_tx[seq][2] > len(self.first_tx) - 60000:
            # verbatim retransmission
            self.retx += 1
            self.probes["verbatim_retransmissions"] += 1
            if self.cfg["rtx"]:
                self.violation("C11", "retransmission-not-sent-as-rtx-although-negotiated", "seq=%d" % seq)
            elif self.first_tx[seq][0] != payload or self.first_tx[seq][1] != ts:
                self.violation("C11", "retransmission-differs-from-original", "seq=%d" % seq)
            return
        self.first_tx[seq] = (payload, ts, len(self.first_tx))
        if seq == 0 and len(self.first_tx) > 1:
            self.probes["rtp_sequence_wrap_crossed"] += 1

    def on_receiver_out(self, data):
        """Plaintext RTCP leaving the receiver."""
        pos = 0
        while pos + 4 <= len(data):
            b0, pt, words = struct.unpack_from("!BBH", data, pos)
            body = data[pos + 4: pos + 4 + 4 * words]
            pos += 4 + 4 * words
            fmt = b0 & 0x1F
            if pt == 205 and fmt == 1:
                n = 0
                for i in range(8, len(body) - 3, 4):
                    pid, blp = struct.unpack_from("!HH", body, i)
                    n += 1 + bin(blp).count("1")
                    listed = [pid] + [(pid + b + 1) & 0xFFFF for b in range(16) if blp & (1 << b)]
                    if self.nack_in_call is not None:
                        self.nack_in_call.update(listed)
                    for q in listed:
                        # (observation) a packet the receiver was already handed, asked for again
                        if q in self.jb_seen and self.jb_adds - self.jb_seen[q] < 20000:
                            self.requested_again.add(q)
                            self.probes["received_packets_requested_again"] += 1
                self.probes["nacks"] += 1
                self.log.add("nack", n)
                if n > 128:
                    self.violation("C11", "nack-lists-more-than-128-packets", "listed=%d" % n)
            elif pt == 206 and fmt == 1:
                self.probes["pli"] += 1
                self.discards += 1
                self.last_discard_at = len(self.sent)       # frames sent so far
                self.partial_ok = True
                self.log.add("pli")

    def on_tap(self, item):
        codec, frame = item
        data = frame.data
        self.probes["frames_to_decoder"] += 1
        marks = [int(m) for m in FRAME_MARK.findall(data)]
        k, partial = None, False
        # newer frames first (the expected case), then older ones (for classification)
        for cand in list(range(self.last_k + 1, len(self.sent))) + list(range(self.last_k, -1, -1)):
            s = self.sent[cand]
            if data == s["full"]:
                k = cand
                break
            if len(data) < len(s["full"]) and s["full"].endswith(data):
                # packet-aligned tail?
                tail = b""
                for c in reversed(s["chunks"][1:]):
                    tail = c + tail
                    if tail == data:
                        k, partial = cand, True
                        break
                if k is not None:
                    break
        if k is not None and k <= self.last_k:
            why = ":after-a-packet-arrived-100-or-more-positions-late" if self.late100 else ""
            self.violation("C11", "frame-delivered-twice-or-out-of-order" + why,
                           "frame %d (%s) handed to the decoder after frame %d" % (
                               k, "tail" if partial else "whole", self.last_k))
            self.partial_ok = False
            return
        if k is None:
            if len(set(marks)) >= 2 or (marks and not data.startswith((b"F", b"\x00\x00\x00\x01"))):
                sig = "frame-is-a-splice-of-two-frames"
            elif marks:
                sig = "frame-has-a-hole-or-is-cut-short"
            else:
                sig = "frame-bytes-match-no-sent-frame"
            self.violation("C11", sig, "after frame %d: %d bytes, frame markers %r" % (self.last_k, len(data), marks[:4]))
            return
        if partial and not self.partial_ok:
            self.violation("C11", "tail-of-a-frame-delivered-without-start-or-discard",
                           "frame %d delivered as a %d-byte tail of %d" % (k, len(data), len(self.sent[k]["full"])))
        if partial:
            self.probes["partial_first_frames"] += 1
        self.partial_ok = False
        self.last_k = k
        self.tapped.append((k, partial))
        self.log.add("frame", k, int(partial))
        self.note_state("d%d|p%d|r%d" % (min(self.discards, 2), int(partial), min(self.retx, 3)))

    # -- the run ---------------------------------------------------------------------------
    async def main(self):
        cfg = self.cfg
        pair = self.pair = TransportPair(self)
        await pair.connect()
        if any(pair.dtls[n].state != "connected" for n in "SR"):
            raise AssertionError("transport pair failed to connect: %r" % {n: pair.dtls[n].state for n in "SR"})
        # (observation only) what the receiver's SRTP session rejects, per source: a source whose first packet to arrive
        # was sent after that source's sequence number had wrapped cannot be followed by any SRTP receiver (RFC 3711:
        # the rollover counter is not on the wire) - the origin-independence pairs need to tell that case apart
        world = self

        class SrtpWatch:
            def __init__(self, inner):
                self.inner = inner

            def unprotect(self, data):
                ssrc = int.from_bytes(data[8:12], "big") if len(data) >= 12 else None
                try:
                    out = self.inner.unprotect(data)
                except Exception:
                    world.probes["srtp_unprotect_failed"] += 1
                    if ssrc not in world.srtp_heard:
                        world.srtp_unheard_fail.setdefault(ssrc, int.from_bytes(data[2:4], "big"))
                    else:
                        world.srtp_other_fail += 1
                    raise
                world.srtp_heard.add(ssrc)
                return out

            def __getattr__(self, name):
                return getattr(self.inner, name)
        self.srtp_heard, self.srtp_unheard_fail, self.srtp_other_fail = set(), {}, 0
        if pair.dtls["R"]._rx_srtp is not None:
            pair.dtls["R"]._rx_srtp = SrtpWatch(pair.dtls["R"]._rx_srtp)
        if cfg.get("outage"):
            # the path from the sender is down for a while: longer than the sender's history lasts, so the receiver
            # ends up discarding what it held and asks for a key frame; what is lost *afterwards* is owed again
            t0 = self.loop.time() + cfg["outage"][0]
            for link in self.fabric.links:
                if link.stream.startswith("net.S2R"):
                    link.blackouts.append((t0, t0 + cfg["outage"][1]))
            self.faults["outage"] += 1
        if cfg["codec"] == "H264":
            media = RTCRtpCodecParameters(mimeType="video/H264", clockRate=90000, payloadType=96,
                                          parameters={"packetization-mode": "1", "profile-level-id": "42e01f"})
        else:
            media = RTCRtpCodecParameters(mimeType="video/VP8", clockRate=90000, payloadType=96)
        codecs = [media]
        if cfg["rtx"]:
            codecs.append(RTCRtpCodecParameters(mimeType="video/rtx", clockRate=90000, payloadType=97,
                                                parameters={"apt": 96}))
        ext = [RTCRtpHeaderExtensionParameters(id=2, uri=ABS_SEND_TIME), RTCRtpHeaderExtensionParameters(id=1, uri=MID_URI)]
        track = SimPacketTrack(self)
        sender = self.sender = pair.ctx["S"].run(txmod.RTCRtpSender, track, pair.dtls["S"])
        receiver = self.receiver = pair.ctx["R"].run(rxmod.RTCRtpReceiver, "video", pair.dtls["R"])
        receiver._track = rxmod.RemoteStreamTrack(kind="video")
        receiver._set_rtcp_ssrc(0x0BADCAFE)
        # observers on the plaintext side of both transports
        for n, cb in (("S", self.on_sender_out), ("R", self.on_receiver_out)):
            orig = pair.dtls[n]._send_rtp

            async def send_rtp(data, _orig=orig, _cb=cb):
                try:
                    _cb(bytes(data))
                except Exception as exc:  # noqa
                    self.harness_note(exc)
                return await _orig(data)

            pair.dtls[n]._send_rtp = send_rtp
        # every newly detected gap is requested at once: the handling of the packet that reveals it sends a NACK that
        # lists the packets of the gap (those within the 128-packet window)
        self.gap_max = None
        self.nack_in_call = None
        orig_handle = receiver._handle_rtp_packet

        async def handle(packet, arrival_time_ms, _orig=orig_handle):
            gap = []
            if packet.ssrc == cfg["ssrc"] and packet.payload_type == 96:
                seq = packet.sequence_number
                if self.gap_max is None:
                    self.gap_max = seq
                else:
                    d = (seq - self.gap_max) & 0xFFFF
                    if 0 < d < 0x8000:
                        if 2 <= d <= 128:
                            gap = [(self.gap_max + i) & 0xFFFF for i in range(1, d)]
                        self.gap_max = seq
            self.nack_in_call = set() if gap else None
            try:
                return await _orig(packet, arrival_time_ms=arrival_time_ms)
            finally:
                listed, self.nack_in_call = self.nack_in_call, None
                if gap and not self.violations:
                    self.probes["gaps_revealed"] += 1
                    absent = [x for x in gap if x not in (listed or ())]
                    if absent:
                        self.violation("C11", "newly-missing-packets-not-requested",
                                       "packet %d revealed that %r are missing; the receiver sent %s" % (
                                           packet.sequence_number, gap[:6], "no NACK" if not listed else "a NACK without %r" % absent[:6]))

        receiver._handle_rtp_packet = handle
        jb = receiver._RTCRtpReceiver__jitter_buffer
        jb_add = jb.add

        def add(packet, _orig=jb_add):
            seq = packet.sequence_number
            self.jb_adds += 1
            if self.jb_max is None or 0 < ((seq - self.jb_max) & 0xFFFF) < 0x8000:
                self.jb_max = seq
            elif 100 <= ((self.jb_max - seq) & 0xFFFF) < 0x8000:
                if seq in self.requested_again and seq in self.jb_seen and not self.violations:
                    # not the network's doing (known finding F24 is about packets the network delivers late): the
                    # receiver asked again for a packet it had, and the copy it was sent restarts the jitter buffer
                    self.violation("C11", "received-packet-requested-again-and-its-copy-restarts-the-jitter-buffer",
                                   "packet %d had been handed to the jitter buffer, was listed in a later NACK, and its "
                                   "retransmission arrives %d positions behind the newest packet" % (
                                       seq, (self.jb_max - seq) & 0xFFFF))
                if not self.late100:
                    self.late100 = True
                    self.probes["packet_100_or_more_late"] += 1
            self.jb_seen[seq] = self.jb_adds
            return _orig(packet)

        jb.add = add
        # (observation) a request the sender gets round to only after the packet has left its 128-packet history - NACKs are
        # handled one after the other, each retransmission awaited, so with sends that suspend a storm of requests after an
        # outage is worked off seconds late: such a packet is not "still in the sender's history" when it is asked for
        orig_rt = sender._retransmit

        async def retransmit(seq, _orig=orig_rt):
            known = self.first_tx.get(seq)
            if known is not None and len(self.first_tx) - known[2] > 128:
                self.requested_too_late.add(seq)
                self.probes["requests_handled_after_the_packet_left_the_history"] += 1
            return await _orig(seq)

        sender._retransmit = retransmit
        orig_next = sender._next_encoded_frame

        async def next_frame(codec, _orig=orig_next):
            idx = track.i
            enc = await _orig(codec)
            if enc is not None:
                try:
                    self.on_encoded(idx, enc)
                except Exception as exc:  # noqa
                    self.harness_note(exc)
            return enc

        sender._next_encoded_frame = next_frame
        enc = RTCRtpDecodingParameters(ssrc=cfg["ssrc"], payloadType=96,
                                       rtx=RTCRtpRtxParameters(ssrc=cfg["rtx_ssrc"]) if cfg["rtx"] else None)
        rparams = RTCRtpReceiveParameters(codecs=codecs, headerExtensions=ext, muxId="0",
                                          rtcp=RTCRtcpParameters(cname="sim", mux=True), encodings=[enc])
        sparams = RTCRtpSendParameters(codecs=codecs, headerExtensions=ext, muxId="0",
                                       rtcp=RTCRtcpParameters(cname="sim", mux=True, ssrc=cfg["ssrc"]),
                                       encodings=[RTCRtpEncodingParameters(ssrc=cfg["ssrc"], payloadType=96)])
        await self.loop.create_task(receiver.receive(rparams), context=pair.ctx["R"])
        await self.loop.create_task(sender.send(sparams), context=pair.ctx["S"])
        # run until every planned frame (incl. the tail) has been sent, then a grace period
        t_end = self.loop.time() + 600.0
        while track.i < len(self.frames_plan) and self.loop.time() < t_end:
            await asyncio.sleep(0.25)
            if any(pair.dtls[n].state != "connected" for n in "SR"):
                break
        await asyncio.sleep(5.0)
        self.final()
        self.link_faults(self.fabric.links)

    def final(self):
        pair = self.pair
        for n in "SR":
            if pair.dtls[n].state != "connected":
                why = [u for u in self.loop.unhandled if u.get("exc") is not None]
                tag = exc_tag(why[0]["exc"]) if why else "?"
                self.violation("C11", "dtls-transport-died:" + tag, "node %s state %s" % (n, pair.dtls[n].state))
                return
        for t in (getattr(self.receiver, "_RTCRtpReceiver__rtcp_task", None),
                  getattr(self.sender, "_RTCRtpSender__rtp_task", None),
                  getattr(self.sender, "_RTCRtpSender__rtcp_task", None)):
            if t is not None and t.done() and not t.cancelled() and t.exception() is not None:
                self.violation("C11", "media-task-died:" + exc_tag(t.exception()), repr(t.exception()))
                return
        if len(self.sent) < self.n_real:
            self.violation("C11", "sender-stopped-sending", "%d of %d frames sent" % (len(self.sent), self.n_real))
            return
        if self.cfg["mode"] != "live" or self.cfg.get("hold_feedback"):
            # (feedback that is kept back for seconds asks for packets that have left the sender's history)
            return
        got = {k for k, _ in self.tapped}
        # frames sent before the first packet the receiver ever saw cannot be recovered by anyone
        first = min(got) if got else 0
        if self.discards:
            # what the buffer threw away is gone, and so may be what was in flight around that moment; frames sent
            # well after the last discard are owed like any other (requests must still be honoured after a PLI)
            first = max(first, getattr(self, "last_discard_at", 0) + 30)
            self.exempt["live_run_with_discard"] += 1
            if first >= self.n_real:
                return
            self.probes["live_frames_judged_after_a_discard"] += 1
        missing = [k for k in range(first, self.n_real) if k not in got]
        if missing and missing == list(range(min(missing), self.n_real)) and self.cfg.get("turn"):
            # the last frames, without a gap: when all their packets did reach the jitter buffer they are complete and wait
            # there for further arrivals to be released (one frame per add(), known finding C10) - with sends that suspend,
            # a storm of repairs after an outage is worked off seconds late and the keep-alive tail of the run is too short
            # to drain that backlog; every packet *was* recovered
            by_idx = {v[2]: q for q, v in self.first_tx.items()}
            start, waiting = sum(len(fr["chunks"]) for fr in self.sent[:min(missing)]), []
            for k in range(min(missing), self.n_real):
                qs = [by_idx.get(i) for i in range(start, start + len(self.sent[k]["chunks"]))]
                start += len(self.sent[k]["chunks"])
                if k in missing and all(q in self.jb_seen for q in qs):
                    waiting.append(k)
            if waiting:
                self.exempt["last_frames_complete_in_the_jitter_buffer_when_the_run_ended"] += len(waiting)
                missing = [k for k in missing if k not in waiting]
        if missing and self.requested_too_late:
            # (the packets of frame k: first transmissions number sum(packets of earlier frames) onwards)
            by_idx = {v[2]: q for q, v in self.first_tx.items()}
            start, of_frame = 0, {}
            for k2, fr in enumerate(self.sent):
                of_frame[k2] = [by_idx.get(i) for i in range(start, start + len(fr["chunks"]))]
                start += len(fr["chunks"])
            late = [k for k in missing if any(q in self.requested_too_late for q in of_frame.get(k, ()))]
            if late:
                self.exempt["frame_with_a_packet_requested_after_it_left_the_history"] += len(late)
                missing = [k for k in missing if k not in late]
        if missing:
            self.violation("C11", "lost-packet-not-recovered-although-feedback-and-retransmissions-get-through",
                           "frames never delivered to the decoder: %r (of %d); retransmissions sent: %d; nacks: %d" % (
                               missing[:10], self.n_real, self.retx, self.probes.get("nacks", 0)))
        else:
            self.probes["live_all_frames_recovered"] += 1

    def complete_in_buffer(self, ks):
        """Did every packet of each of these frames reach the jitter buffer?  (Such a frame is complete and can only be
        waiting for further arrivals to be released: one frame per add(), known finding C10.)"""
        by_idx = {v[2]: q for q, v in self.first_tx.items()}
        starts, pos = [], 0
        for fr in self.sent:
            starts.append(pos)
            pos += len(fr["chunks"])
        for k in ks:
            if k >= len(self.sent):
                return False
            qs = [by_idx.get(i) for i in range(starts[k], starts[k] + len(self.sent[k]["chunks"]))]
            if not all(q is not None and q in self.jb_seen for q in qs):
                return False
        return True

    def config_class(self):
        return "%s/%s/%s" % (self.cfg["mode"], self.cfg["codec"], "rtx" if self.cfg["rtx"] else "nortx")

    def nontrivial(self):
        f = self.faults
        return len(self.tapped) > 0 and (f.get("drop", 0) + f.get("dup", 0) + f.get("reordered", 0)
                                         + f.get("reorder_delay", 0)) > 0

    def sample(self):
        return {"frames_sent": len(self.sent), "frames_to_decoder": len(self.tapped), "retransmissions": self.retx,
                "nacks": self.probes.get("nacks", 0), "pli": self.probes.get("pli", 0)}


def run(spec):
    return run_world(spec, gen_media, MediaWorld)


# ===========================================================================
# dtls_sim (C04): fingerprints, SRTP profiles, roles, and what gets through
# ===========================================================================
SUPPORTED = ["sha-256", "sha-384", "sha-512"]
UNSUPPORTED = ["sha-1", "md5", "sha-224", "sha3-256", "sha256", "sha_512", ""]


def gen_dtls(ch, spec):
    cfg = {"world": "dtls"}
    for side in "AB":
        n = ch.choice("cfg", [1, 1, 2, 3, 4])
        entries = []
        plan = ch.choice("cfg", ["good", "good", "good", "mixed", "mixed", "unsupported-only"])
        for i in range(n):
            r = ch.index("cfg", 100)
            if plan == "unsupported-only" or (plan == "mixed" and r < 30):
                entries.append({"alg": ch.choice("cfg", UNSUPPORTED), "kind": "unsupported",
                                "value": ch.choice("cfg", ["AA:BB:CC", "", "00", "zz"])})
                continue
            alg = ch.choice("cfg", SUPPORTED)
            kind = "bad" if (plan == "mixed" and r >= 75) else "good"
            entries.append({"alg": alg, "algcase": ch.choice("cfg", ["lower", "lower", "upper", "title"]),
                            "kind": kind, "case": ch.choice("cfg", ["upper", "lower", "mixed"]),
                            "flip": ch.randint("cfg", 0, 1000, 0)})
            if kind == "bad":
                # how the value differs from the digest: one digit, a leading part of it, the digest plus one
                # octet, nothing at all
                entries[-1]["how"] = ch.choice("cfg", ["flip", "flip", "prefix", "prefix", "extended", "empty"])
        cfg["fp_" + side] = entries
        k = ch.choice("cfg", [3, 3, 2, 1])
        perm = [0, 1, 2]
        for i in range(2, 0, -1):
            j = ch.index("cfg", i + 1)
            perm[i], perm[j] = perm[j], perm[i]
        cfg["profiles_" + side] = perm[:k]
    cfg["roles"] = ch.choice("cfg", ["auto", "auto", "A-server", "A-client"])
    # handshake datagrams are never lost, but they may be slower than what follows them, and a side may
    # start talking the instant it is connected (while the peer is still waiting for the last flight)
    cfg["hs_extra_delay"] = ch.choice("cfg", [0.0, 0.0, 0.05, 0.5])
    cfg["early"] = ch.choice("cfg", [None, "A", "B", "AB"])
    base = ch.choice("cfg", [0.002, 0.03, 0.4])
    p = Profile(base=base, jitter=ch.choice("cfg", [0.0, 0.01, 0.2]))
    p.corrupt = ch.choice("cfg", [0.0, 0.05, 0.2, 0.5])
    cfg["net"] = p.to_json()
    cfg["sched"] = ch.chance("cfg", 0.7, True)
    cfg["turn"] = fakes.gen_turn(ch, ["A", "B"])
    if ch.chance("cfg", 0.1):
        # the application stops one side while its handshake is still in progress
        cfg["stop_hs"] = {"side": ch.choice("cfg", ["A", "B"]), "after": ch.choice("cfg", [0.0, 0.001, 0.01, 0.05, 0.3])}
    n = ch.choice("wl", [4, 10, 25, 60])
    ops = []
    for _ in range(n):
        ops.append({"dir": ch.choice("wl", ["A", "B"]), "kind": ch.choice("wl", ["rtp", "rtp", "rtcp", "data"]),
                    # payload types outside 64..80 (which collide with RTCP packet types once the marker bit is set)
                    "pt": ch.choice("wl", [96, 96, 0, 8, 13, 35, 63, 81, 90, 95, 111, 127]), "marker": ch.index("wl", 2),
                    "size": ch.choice("wl", [0, 1, 20, 200, 1000, 1150, 1228, 1300, 1400]),
                    "dt": ch.choice("wl", [0.0, 0.001, 0.02, 0.2])})
    if p.corrupt == 0.0 and ch.chance("wl", 0.7):
        # nothing is altered in this run: data messages may then also be handed over by several tasks at once
        for _ in range(ch.choice("wl", [1, 2, 3])):
            ops.insert(ch.index("wl", len(ops) + 1), {"dir": ch.choice("wl", ["A", "B"]), "kind": "burst",
                                                      "count": ch.choice("wl", [2, 3, 5]),
                                                      "size": ch.choice("wl", [1, 200, 1150, 1400]),
                                                      "dt": ch.choice("wl", [0.0, 0.02, 0.2])})
    return cfg, ops


class FakeRtpReceiver:
    def __init__(self, world, side):
        self.world, self.side = world, side

    def __hash__(self):
        return 10 + ord(self.side)

    def _handle_disconnect(self):
        self.world.got[self.side].append(("disconnect",))

    async def _handle_rtcp_packet(self, packet):
        self.world.on_got(self.side, "rtcp-r", packet)

    async def _handle_rtp_packet(self, packet, arrival_time_ms):
        self.world.on_got(self.side, "rtp", packet)


class FakeRtpSender:
    def __init__(self, world, side, ssrc):
        self.world, self.side, self._ssrc = world, side, ssrc

    def __hash__(self):
        return 20 + ord(self.side)

    async def _handle_rtcp_packet(self, packet):
        self.world.on_got(self.side, "rtcp-s", packet)


class FakeDataReceiver:
    def __init__(self, world, side):
        self.world, self.side = world, side

    async def _handle_data(self, data):
        self.world.on_got(self.side, "data", data)


class DtlsWorld(MediaBase):
    engine = "media_sim"
    SSRC = {"A": 0x11110000, "B": 0x22220000}      # the media each side sends

    def __init__(self, spec, ch, cfg, ops):
        super().__init__(spec, ch, cfg, ops)
        fakes.SerialHash.install(FakeRtpReceiver) if False else None
        p = Profile.from_json(cfg["net"])
        p.flip_only = True
        clean = Profile(base=p.base, jitter=p.jitter)
        for key in (("A", "B"), ("B", "A")):
            self.fabric.class_profiles[key] = {"dtls-hs": Profile(base=p.base + cfg.get("hs_extra_delay", 0.0)),
                                               "srtp": p, "srtcp": p, "dtls-app": p}
            self.fabric.profiles[key] = clean
        self.fabric.taps.append(self.on_wire)
        self.got = {"A": [], "B": []}
        self.sent = {"A": [], "B": []}          # (kind, key, wire bytes id)
        self.altered = {"A": 0, "B": 0}
        self.wire = {}                          # id(datagram bytes) bookkeeping is by order: see on_wire
        self.pending = {"A": [], "B": []}       # sends whose datagram fate is not yet known
        # one send at a time per side, so that datagrams reach the wire in the order of `pending` even when the
        # transport suspends a send (an uncontended lock does not suspend: schedules without contention are unchanged)
        self.send_lock = {"A": asyncio.Lock(), "B": asyncio.Lock()}
        self.counter = 0

    # the link tells us what happened to every datagram; sends are matched in order
    def on_wire(self, src, dst, event, data, info):
        if event != "send":
            return
        cls = fakes.classify_datagram(data)
        if cls == "dtls-hs" or not self.pending[src]:
            return
        item = self.pending[src].pop(0)
        item["fate"] = "altered" if (info["act"] == "corrupt" and info.get("bad") != data) else "intact"

    def fingerprints(self, side, peer_cert):
        import hashlib
        from cryptography.hazmat.primitives.serialization import Encoding
        der = peer_cert._cert.public_bytes(Encoding.DER)
        out = []
        for e in self.cfg["fp_" + side]:
            if e["kind"] == "unsupported":
                out.append(dtlsmod.RTCDtlsFingerprint(algorithm=e["alg"], value=e["value"]))
                continue
            hx = hashlib.new(e["alg"].replace("-", "")).hexdigest() if False else \
                hashlib.new(e["alg"].replace("-", ""), der).hexdigest()
            if e["kind"] == "bad":
                how = e.get("how", "flip")
                i = e["flip"] % len(hx)
                if how == "flip":
                    hx = hx[:i] + ("0" if hx[i] != "0" else "f") + hx[i + 1:]
                elif how == "prefix":
                    octets = len(hx) // 2
                    hx = hx[:2 * [1, octets // 2, octets - 1][e["flip"] % 3]]
                elif how == "extended":
                    hx = hx + "00"
                else:
                    hx = ""
            val = ":".join(hx[i:i + 2] for i in range(0, len(hx), 2))
            val = {"upper": val.upper(), "lower": val.lower(),
                   "mixed": "".join(c.upper() if k % 3 else c.lower() for k, c in enumerate(val))}[e["case"]]
            alg = {"lower": e["alg"], "upper": e["alg"].upper(), "title": e["alg"].title()}[e["algcase"]]
            out.append(dtlsmod.RTCDtlsFingerprint(algorithm=alg, value=val))
        return out

    def expect_identity_ok(self, side):
        sup = [e for e in self.cfg["fp_" + side] if e["kind"] != "unsupported"]
        return bool(sup) and all(e["kind"] == "good" for e in sup)

    def on_got(self, side, kind, obj):
        try:
            if kind == "data":
                self.got[side].append(("data", bytes(obj)))
            elif kind == "rtp":
                self.got[side].append(("rtp", (obj.ssrc, obj.sequence_number, obj.timestamp, obj.payload_type,
                                               obj.marker, bytes(obj.payload))))
            else:
                self.got[side].append((kind, type(obj).__name__, getattr(obj, "ssrc", None)))
            self.log.add("got", side, kind)
        except Exception as exc:  # noqa
            self.harness_note(exc)

    async def main(self):
        cfg = self.cfg
        pair = self.pair = TransportPair(self, names=("A", "B"))
        certs = fakes.certificate_pool()
        all_profiles = list(dtlsmod.SRTP_PROFILES)
        for i, n in enumerate("AB"):
            pair.dtls[n]._srtp_profiles = [all_profiles[j] for j in cfg["profiles_" + n] if j < len(all_profiles)] \
                or all_profiles[:1]
        if cfg["roles"] == "A-server":
            pair.dtls["A"]._set_role("server")
            pair.dtls["B"]._set_role("client")
        elif cfg["roles"] == "A-client":
            pair.dtls["A"]._set_role("client")
            pair.dtls["B"]._set_role("server")
        params = {"A": dtlsmod.RTCDtlsParameters(fingerprints=self.fingerprints("A", certs[1 % len(certs)])),
                  "B": dtlsmod.RTCDtlsParameters(fingerprints=self.fingerprints("B", certs[0]))}
        # fake parties, registered before the handshake so that nothing can slip by
        self.parties = {}
        for n in "AB":
            peer = "B" if n == "A" else "A"
            rcv, snd, dat = FakeRtpReceiver(self, n), FakeRtpSender(self, n, self.SSRC[n]), FakeDataReceiver(self, n)
            rparams = RTCRtpReceiveParameters(
                codecs=[RTCRtpCodecParameters(mimeType="video/VP8", clockRate=90000, payloadType=pt)
                        for pt in (96, 0, 8, 13, 35, 63, 81, 90, 95, 111, 127)],
                encodings=[RTCRtpDecodingParameters(ssrc=self.SSRC[peer], payloadType=96)])
            pair.dtls[n]._register_rtp_receiver(rcv, rparams)
            pair.dtls[n]._register_rtp_sender(snd, RTCRtpSendParameters())
            pair.dtls[n]._register_data_receiver(dat)
            self.parties[n] = (rcv, snd, dat)
        seq = {"A": 100, "B": 60000}
        for n in (cfg.get("early") or ""):
            def on_state(n=n):
                if pair.dtls[n].state == "connected" and not getattr(self, "_early_" + n, False):
                    setattr(self, "_early_" + n, True)
                    self.probes["early_sends"] += 1
                    for kind in ("data", "rtp"):
                        self.loop.create_task(self.send_one(n, {"kind": kind, "size": 20, "early": True}, seq),
                                              context=pair.ctx[n])
            pair.dtls[n].on("statechange", on_state)
        if cfg.get("stop_hs"):
            await self.stop_during_handshake(params, seq)
            self.link_faults(self.fabric.links)
            return
        await pair.connect(dtls_params=params)
        for n, exc in pair.start_errors:
            self.violation("C04", "dtls-start-raised:" + exc_tag(exc), "side %s: %r" % (n, exc))
            return
        states = {n: pair.dtls[n].state for n in "AB"}
        common = [j for j in cfg["profiles_A"] if j in cfg["profiles_B"]]
        want = {}
        for n in "AB":
            want[n] = "connected" if (self.expect_identity_ok(n) and common) else "failed"
        self.log.add("states", tuple(sorted(states.items())), tuple(sorted(want.items())))
        self.probes["verdict_%s_%s" % (want["A"], want["B"])] += 1
        self.note_state("%s|%s|%s|early=%s|profiles=%d/%d" % (want["A"], want["B"], cfg["roles"], cfg.get("early"),
                                                           len(cfg["profiles_A"]), len(cfg["profiles_B"])))
        for n in "AB":
            if states[n] != want[n]:
                why = "fingerprints" if common else "no-common-srtp-profile"
                peer = "B" if n == "A" else "A"
                if want[n] == "connected" and any(it["early"] and it["kind"] == "data" and it.get("fate") == "altered"
                                                  for it in self.sent[peer]):
                    # the known OpenSSL behaviour (F26), hit during the handshake
                    self.violation("C04", self.DEAD_SIG, "side %s: handshake failed after an altered early application "
                                   "record from %s arrived" % (n, peer))
                    return
                self.violation("C04", "state-%s-but-%s-expected:%s" % (states[n], want[n], why),
                               "side %s fingerprints=%r profiles A=%r B=%r roles=%s" % (
                                   n, cfg["fp_" + n], cfg["profiles_A"], cfg["profiles_B"], cfg["roles"]))
                return
        # traffic
        for op in self.ops:
            if op["dt"]:
                await asyncio.sleep(op["dt"])
            n = op["dir"]
            if op["kind"] == "burst":
                await self.send_burst(n, op)
                continue
            await self.loop.create_task(self.send_one(n, op, seq), context=pair.ctx[n])
        await asyncio.sleep(3.0)
        self.final(states)
        self.link_faults(self.fabric.links)

    async def stop_during_handshake(self, params, seq):
        """One side's application calls stop() while its start() is still in the handshake; the peer carries on.
        Whatever that does to the stopping side's state, a side whose signalled fingerprints do not match the peer's
        certificate must never report connected, never hold SRTP keys and never deliver anything."""
        cfg, pair = self.cfg, self.pair
        n = cfg["stop_hs"]["side"]
        peer = "B" if n == "A" else "A"
        seen = {"A": [], "B": []}
        for x in "AB":
            pair.dtls[x].on("statechange", lambda x=x: seen[x].append(pair.dtls[x].state))
        conn = self.loop.create_task(pair.connect(dtls_params=params))
        t_end = self.loop.time() + 5.0
        while pair.dtls[n].state == "new" and self.loop.time() < t_end and not conn.done():
            await asyncio.sleep(0.001)
        await asyncio.sleep(cfg["stop_hs"]["after"])
        at_stop = pair.dtls[n].state
        try:
            await self.loop.create_task(pair.dtls[n].stop(), context=pair.ctx[n])
        except Exception as exc:  # noqa
            self.violation("C04", "dtls-stop-raised:" + exc_tag(exc), "side %s in state %s: %r" % (n, at_stop, exc))
            return
        self.probes["stopped_in_" + at_stop] += 1
        await asyncio.wait([conn], timeout=10.0)
        # the peer carries on with whatever it has
        for i in range(4):
            for kind in ("rtp", "data"):
                try:
                    await self.loop.create_task(self.send_one(peer, {"kind": kind, "size": 20, "pt": 96, "marker": 0}, seq),
                                                context=pair.ctx[peer])
                except Exception:  # noqa
                    pass
            await asyncio.sleep(0.05)
        await asyncio.sleep(2.0)
        if not conn.done():
            conn.cancel()
        common = [j for j in cfg["profiles_A"] if j in cfg["profiles_B"]]
        for x in "AB":
            if self.expect_identity_ok(x) and common:
                continue
            # x must not accept its peer
            if "connected" in seen[x]:
                self.violation("C04", "state-connected-but-failed-expected:stop-during-handshake", "side %s states %r" % (x, seen[x]))
            elif pair.dtls[x]._rx_srtp is not None or pair.dtls[x]._tx_srtp is not None:
                self.violation("C04", "srtp-keys-derived-for-a-peer-whose-fingerprint-does-not-match",
                               "side %s (stop() was called on %s in state %s); states %r" % (x, n, at_stop, seen[x]))
            elif self.got[x]:
                self.violation("C04", "failed-transport-delivered-something",
                               "side %s got %r (stop() on %s in state %s)" % (x, [g[0] for g in self.got[x]][:6], n, at_stop))
            else:
                self.probes["stop_during_handshake_nothing_accepted"] += 1

    async def send_burst(self, n, op):
        """Several data messages handed to the transport by concurrent tasks (as RTCSctpTransport does from its timers,
        its receive path and the application).  Only generated for runs whose network alters nothing, so every one of
        them is due intact whatever order they reach the wire in."""
        pair = self.pair
        d = pair.dtls[n]

        async def one(payload, item):
            try:
                await d._send_data(payload)
                self.probes["sent_data"] += 1
            except ConnectionError:
                item["refused"] = True
                self.probes["send_refused"] += 1
            except Exception as exc:  # noqa
                item["refused"] = True
                self.violation("C04", "send-raised:" + exc_tag(exc), "side %s kind data (burst): %r" % (n, exc))
        tasks = []
        for _ in range(op["count"]):
            self.counter += 1
            payload = b"D%06d" % self.counter + bytes(((self.counter * 31 + i * 7) & 0xFF) for i in range(op["size"]))
            item = {"kind": "data", "fate": "intact", "early": False, "key": ("data", payload)}
            self.sent[n].append(item)
            tasks.append(self.loop.create_task(one(payload, item), context=pair.ctx[n]))
        await asyncio.gather(*tasks)
        self.probes["concurrent_data_bursts"] += 1

    async def send_one(self, n, op, seq):
        async with self.send_lock[n]:
            await self._send_one(n, op, seq)

    async def _send_one(self, n, op, seq):
        pair = self.pair
        d = pair.dtls[n]
        self.counter += 1
        # (libsrtp's buffer bounds an RTP packet at 1500 bytes minus its 144-byte worst-case trailer)
        size = op["size"] if op["kind"] == "data" else min(op["size"], 1300)
        body = bytes(((self.counter * 31 + i * 7) & 0xFF) for i in range(size))
        # early = sent the instant this side connected, possibly before the peer has: it may be lost
        # (no keys there yet), it must never be delivered altered or by a transport that ends up failed
        item = {"kind": op["kind"], "fate": None, "early": bool(op.get("early"))}
        try:
            if op["kind"] == "data":
                payload = b"D%06d" % self.counter + body
                item["key"] = ("data", payload)
                self.pending[n].append(item)
                await d._send_data(payload)
            elif op["kind"] == "rtp":
                seq[n] = (seq[n] + 1) & 0xFFFF
                ts = (self.counter * 3000) & 0xFFFFFFFF
                marker = op.get("marker", self.counter & 1)
                pt = op.get("pt", 96)
                pkt = struct.pack("!BBHLL", 0x80, (marker << 7) | pt, seq[n], ts, self.SSRC[n]) + body
                item["key"] = ("rtp", (self.SSRC[n], seq[n], ts, pt, marker, body))
                self.pending[n].append(item)
                await d._send_rtp(pkt)
            else:
                peer = "B" if n == "A" else "A"
                # SR about my media (to the peer's receiver) + RR block about the peer's media (to its sender)
                sr = struct.pack("!BBHL", 0x81, 200, 12, self.SSRC[n]) + struct.pack("!QLLL", self.counter, 0, 1, 2) \
                    + struct.pack("!LBBHLLLL", self.SSRC[peer], 0, 0, 0, 0, 0, 0, 0)
                item["key"] = ("rtcp", self.counter)
                self.pending[n].append(item)
                await d._send_rtp(sr)
            self.sent[n].append(item)
            self.probes["sent_" + op["kind"]] += 1
        except ConnectionError:
            if item in self.pending[n]:
                self.pending[n].remove(item)
            item["refused"] = True
            self.sent[n].append(item)
            self.probes["send_refused"] += 1
        except Exception as exc:  # noqa
            if item in self.pending[n]:
                self.pending[n].remove(item)
            item["refused"] = True
            self.sent[n].append(item)
            if self.ssl_dead():
                self.violation("C04", self.DEAD_SIG, "side %s: sending %s raised %r; %s" % (n, op["kind"], exc, self.ssl_dead()))
            else:
                self.violation("C04", "send-raised:" + exc_tag(exc), "side %s kind %s: %r" % (n, op["kind"], exc))

    DEAD_SIG = "dtls-association-dead-after-altered-dtls-record"

    def ssl_dead(self):
        """OpenSSL gave up on the DTLS association (fatal record-layer error on one side, alert received on the
        other) after an altered application-data record arrived: diagnosis for the known finding."""
        altered = any(it["kind"] == "data" and it.get("fate") == "altered" for n in "AB" for it in self.sent[n])
        if not altered:
            return None
        out = []
        for n in "AB":
            ssl = self.pair.dtls[n]._ssl
            try:
                if ssl is not None and (ssl.get_shutdown() or ssl.get_state_string() == b"error"):
                    out.append("%s: shutdown=%d state=%r" % (n, ssl.get_shutdown(), ssl.get_state_string()))
            except Exception:  # noqa
                pass
        return "; ".join(out) or None

    def final(self, states):
        dead = self.ssl_dead() if all(states[n] == "connected" for n in "AB") else None
        if dead:
            self.violation("C04", self.DEAD_SIG, "after an altered DTLS application record OpenSSL abandoned the association "
                           "(%s): later messages are lost although both transports report connected" % dead)
            return
        for n in "AB":
            peer = "B" if n == "A" else "A"
            if states[n] == "failed":
                if self.got[n]:
                    self.violation("C04", "failed-transport-delivered-something",
                                   "side %s got %r" % (n, [g[0] for g in self.got[n]][:6]))
                if any(not it.get("refused") for it in self.sent[n]):
                    self.violation("C04", "failed-transport-accepted-a-send", "side %s" % n)
                continue
            if self.pair.dtls[n].state != "connected":
                self.violation("C04", "transport-left-connected-state",
                               "side %s now %s" % (n, self.pair.dtls[n].state))
                continue
            if states[peer] != "connected":
                continue
            # n is the receiving side of what peer sent
            early_ok = {it["key"][1] if it["kind"] != "rtp" else it["key"][1] for it in self.sent[peer]
                        if it["early"] and it["fate"] == "intact" and not it.get("refused")}
            got_keys = [g[1] for g in self.got[n] if g[0] in ("rtp", "data")]
            want_rtp = [it["key"][1] for it in self.sent[peer] if it["kind"] == "rtp" and it["fate"] == "intact"
                        and (not it["early"] or it["key"][1] in got_keys)]
            want_data = [it["key"][1] for it in self.sent[peer] if it["kind"] == "data" and it["fate"] == "intact"
                         and (not it["early"] or it["key"][1] in got_keys)]
            n_rtcp = sum(1 for it in self.sent[peer] if it["kind"] == "rtcp" and it["fate"] == "intact")
            self.altered[peer] = sum(1 for it in self.sent[peer] if it["fate"] == "altered")
            got_rtp = [g[1] for g in self.got[n] if g[0] == "rtp"]
            got_data = [g[1] for g in self.got[n] if g[0] == "data"]
            got_r = sum(1 for g in self.got[n] if g[0] == "rtcp-r")
            got_s = sum(1 for g in self.got[n] if g[0] == "rtcp-s")
            if sorted(got_rtp) != sorted(want_rtp):
                extra = [g for g in got_rtp if g not in want_rtp]
                self.violation("C04", "rtp-%s" % ("altered-or-foreign-packet-delivered" if extra else "intact-packet-not-delivered"),
                               "to %s: sent intact %d, delivered %d, not sent as such %d" % (n, len(want_rtp), len(got_rtp), len(extra)))
            if sorted(got_data) != sorted(want_data):
                extra = [g for g in got_data if g not in want_data]
                self.violation("C04", "data-%s" % ("altered-or-foreign-message-delivered" if extra else "intact-message-not-delivered"),
                               "to %s: sent intact %d, delivered %d, not sent as such %d" % (n, len(want_data), len(got_data), len(extra)))
            if got_r != n_rtcp or got_s != n_rtcp:
                self.violation("C04", "rtcp-delivery-mismatch", "to %s: intact compound packets %d, receiver got %d, sender got %d" % (
                    n, n_rtcp, got_r, got_s))
            self.probes["delivered_rtp"] += len(got_rtp)
            self.probes["delivered_data"] += len(got_data)
            self.probes["altered_in_transit"] += self.altered[peer]

    def config_class(self):
        return "%s/%d-%d" % (self.cfg["roles"], len(self.cfg["profiles_A"]), len(self.cfg["profiles_B"]))

    def nontrivial(self):
        return len(self.ops) > 0

    def sample(self):
        return {"states": {n: self.pair.dtls[n].state for n in "AB"} if hasattr(self, "pair") else None,
                "delivered": {n: len(self.got[n]) for n in "AB"}}


def run_dtls(spec):
    return run_world(spec, gen_dtls, DtlsWorld)
