"""Shared scaffolding for engines: a world base class (loop, seams, log,
violations, probes) and the uniform result / replay record."""

from collections import Counter

from ..choices import Choices, derive_seed
from ..eventlog import EventLog
from ..loop import RunTimeout, SimBudgetExceeded, SimDeadlock, hang_frame, new_loop
from ..seams import Seams, teardown_loop


def innermost_aiortc_frame(exc):
    tb = exc.__traceback__
    name = "?"
    while tb is not None:
        fn = tb.tb_frame.f_code.co_filename
        if "aiortc" in fn and "simrtc" not in fn:
            mod = fn.rsplit("/", 1)[-1].replace(".py", "")
            name = "%s.%s" % (mod, tb.tb_frame.f_code.co_name)
        tb = tb.tb_next
    return name


def exc_tag(exc):
    return "%s@%s" % (type(exc).__name__, innermost_aiortc_frame(exc))


class BaseWorld:
    engine = "?"

    def __init__(self, spec, choices, cfg, ops, max_steps=3_000_000, max_time=1e7):
        self.spec = spec
        self.ch = choices
        self.cfg = cfg
        self.ops = ops
        self.loop = new_loop(choices, max_steps=spec.get("max_steps", max_steps), max_time=max_time)
        self.loop.sched_enabled = bool(cfg.get("sched", True))
        self.loop.stall_rate = cfg.get("stall_rate", 0.0)
        self.loop.stall_max = cfg.get("stall_max", 0.0)
        self.seams = Seams(self.loop, spec["seed_int"]).install()
        self.log = EventLog(self.loop)
        self.violations = []
        self.probes = Counter()
        self.exempt = Counter()
        self.faults = Counter()
        self.states = set()
        self.transitions = set()
        self._last_state = None

    def violation(self, prop, signature, detail):
        self.log.add("violation", prop, signature)
        if len(self.violations) < 20:
            self.violations.append({"property": prop, "signature": signature, "detail": detail,
                                    "t": round(self.loop.time(), 6), "log_at": list(self.log.tail)[-50:]})

    def harness_note(self, exc):
        import traceback
        self.violations.append({"property": "HARNESS", "signature": "harness:" + type(exc).__name__,
                                "detail": "".join(traceback.format_exception(exc))[-1500:]})

    def note_state(self, st):
        if st != self._last_state:
            if len(self.states) < 3000:
                self.states.add(st)
                if self._last_state is not None:
                    self.transitions.add(self._last_state + ">" + st)
            self._last_state = st

    def link_faults(self, links):
        for link in links:
            for k, v in link.stats.items():
                if k not in ("sent", "delivered"):
                    self.faults[k] += v

    # subclasses: async def main(self); def nontrivial(self) -> bool; def sample(self) -> dict


def note_hang(world, spec, where):
    """One callback of the code under test never returned (busy loop): the event loop - every task of the
    process - is frozen.  Reported under the property being checked, with the spinning function as cause."""
    world.probes["hang_detected"] += 1
    world.violation(spec["property"], "hang:event-loop-frozen-by-busy-loop@" + where,
                    "a callback spun for more than 10 s of wall time without returning; innermost aiortc frame: " + where)


def build_choices(spec, generate):
    """-> (choices, cfg, ops); `generate(ch, spec)` draws from streams cfg / wl."""
    replay = spec.get("replay")
    if replay is not None:
        ch = Choices(seed=None, trace=replay["streams"])
        return ch, replay["config"], replay["ops"]
    seed_int = derive_seed(spec["seed"], spec["property"], spec["run"])
    ch = Choices(seed=seed_int)
    cfg, ops = generate(ch, spec)
    return ch, cfg, ops


def execute_world(world_cls, spec, ch, cfg, ops, keep_log=False):
    """Run one world to completion; -> (world, harness error or None)."""
    world = world_cls(spec, ch, cfg, ops)
    world.log.keep_all = keep_log
    harness = None
    try:
        try:
            world.loop.run_until_complete(world.main())
        except (SimDeadlock, SimBudgetExceeded) as exc:
            harness = world.on_budget(exc) if hasattr(world, "on_budget") else "%s: %s" % (type(exc).__name__, exc)
        except RunTimeout as exc:
            where = hang_frame(world.loop, exc)
            if where is None:
                raise
            note_hang(world, spec, where)
    finally:
        try:
            if hasattr(world, "cleanup"):
                world.cleanup()
        finally:
            teardown_loop(world.loop)
    return world, harness


def run_world(spec, generate, world_cls, extra_props=()):
    spec = dict(spec)
    spec["seed_int"] = derive_seed(spec.get("seed", 0), spec["property"], spec.get("run", 0)) & 0xFFFFFFFF
    ch, cfg, ops = build_choices(spec, generate)
    if spec.get("cfg_override"):
        cfg = dict(cfg, **spec["cfg_override"])
    world, harness = execute_world(world_cls, spec, ch, cfg, ops)
    return finish(world, spec, ch, cfg, ops, harness)


def finish(world, spec, ch, cfg, ops, harness):
    prop = spec["property"]
    faults = Counter(world.faults)
    faults["node_stall"] += world.loop.stalls
    faults["node_switch"] += world.loop.node_switches
    mine = [v for v in world.violations if v["property"] == prop]
    known = set(spec.get("known_signatures") or ())
    mine.sort(key=lambda v: v["signature"] in known)
    hv = [v for v in world.violations if v["property"] == "HARNESS"]
    res = {
        "verdict": "ok",
        "digest": world.log.digest(),
        "faults": {k: v for k, v in faults.items() if v},
        "probes": dict(world.probes),
        "exempt": dict(world.exempt),
        "sim_seconds": round(world.loop.time(), 3),
        "steps": world.loop.steps,
        "states": sorted(world.states),
        "transitions": sorted(world.transitions),
        "nontrivial": bool(world.nontrivial()),
        "config_class": world.config_class() if hasattr(world, "config_class") else cfg.get("mode", "default"),
        "other_violations": [v["property"] + ":" + v["signature"] for v in world.violations
                             if v["property"] not in (prop, "HARNESS")][:5],
    }
    sample = {"seed": spec.get("seed"), "run": spec.get("run"), "config": cfg, "ops_head": ops[:6],
              "n_ops": len(ops), "faults": res["faults"], "digest": res["digest"], "verdict": "ok"}
    sample.update(world.sample() if hasattr(world, "sample") else {})
    res["sample"] = sample
    if harness or hv:
        res["verdict"] = "harness_error"
        res["detail"] = harness or repr(hv[0])
        return res
    if mine:
        v = mine[0]
        res["verdict"] = "violation"
        res["signature"] = v["signature"]
        res["detail"] = v["detail"]
        res["all_violations"] = [x["signature"] for x in mine]
        res["sample"]["verdict"] = "violation:" + v["signature"]
        res["replay"] = {
            "property": prop, "engine": world.engine, "profile": spec.get("profile"),
            "seed": spec.get("seed"), "run": spec.get("run"),
            "config": cfg, "ops": ops, "streams": {k: list(v) for k, v in ch.trace().items()},
            "expect": {"signature": v["signature"], "digest": res["digest"]},
            "detail": v["detail"], "t": v.get("t"),
            "log_tail": v.get("log_at") or list(world.log.tail)[-60:],
        }
    return res
