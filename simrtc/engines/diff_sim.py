"""diff_sim (C17): differential simulation.  The same workload and the same
recorded network / scheduler decisions are executed twice - once with small
sequence-number origins, once with origins a few hundred below the wrap point
(TSN and hence re-config sequence numbers, stream sequence numbers; RTP
sequence numbers and timestamps) - and the two event logs, with every sequence
field taken relative to its origin, must be identical.  Any first point of
difference is by construction caused by the origin alone.
"""

import copy

from ..choices import Choices, derive_seed
from . import history_sim, media_sim, sctp_sim
from .common import build_choices, execute_world, finish as common_finish

KINDS = ["sctp", "media", "jb", "sctp", "stats", "sctp", "media", "sctp", "jb", "stats"]


# -- per-kind: generation, the wrapped variant of a configuration, execution ----
def gen_sctp(ch, spec):
    profile = ch.choice("cfg", ["c01", "c02", "c06", "c13", "c06"])
    cfg, ops = sctp_sim.generate(ch, profile)
    cfg["diff_kind"] = "sctp"
    cfg["origin"] = "small"
    cfg["normalise"] = True
    cfg["origins"] = {s: [ch.randint("cfg", 1, 0xFFFFFFFF, 12345), ch.randint("cfg", 0, 1000, 1)] for s in "AB"}
    cfg["sseq_origin"] = 0
    cfg["wrap"] = {"A": ch.randint("cfg", 0, 300, 3), "B": ch.randint("cfg", 0, 300, 3),
                   "sseq": ch.randint("cfg", 0, 40, 2)}
    return cfg, ops


def wrap_sctp(cfg):
    c = copy.deepcopy(cfg)
    for s in "AB":
        c["origins"][s][1] = 0xFFFFFFFF - cfg["wrap"][s]
    c["sseq_origin"] = 65535 - cfg["wrap"]["sseq"]
    return c


def gen_jb(ch, spec):
    cfg, ops = history_sim.gen_jb(ch, spec)
    cfg["diff_kind"] = "jb"
    cfg["seq0"] = ch.randint("cfg", 0, 300, 1)
    if "ts_zero_step" in cfg:
        cfg["ts0_wrap"] = cfg["ts0"]       # the origin from which one frame lands on timestamp 0 exactly
    cfg["ts0"] = ch.randint("cfg", 1, 100000, 1)
    cfg["wrap"] = {"seq": ch.randint("cfg", 0, 400, 3), "ts": ch.randint("cfg", 0, 2000000, 3)}
    return cfg, ops


def wrap_jb(cfg):
    c = copy.deepcopy(cfg)
    c["seq0"] = 65535 - cfg["wrap"]["seq"]
    c["ts0"] = cfg.get("ts0_wrap", 0xFFFFFFFF - cfg["wrap"]["ts"])
    return c


def gen_stats(ch, spec):
    cfg, ops = history_sim.gen_stats(ch, spec)
    cfg["diff_kind"] = "stats"
    cfg["normalise"] = True
    if cfg["nstreams"] > 1:
        # the receiver has one loss detector for all its streams; with two streams what it asks for depends on how
        # their two sequence spaces lie relative to each other, which a pair does not preserve - and with suspending
        # sends those requests would shift the arrival clock of everything behind them
        cfg["send_suspend"] = 0.0
    cfg["wrap"] = []
    for st in cfg["streams"]:
        st["seq0"] = ch.randint("cfg", 0, 300, 1)
        st["rtx_seq0"] = ch.randint("cfg", 0, 300, 2)
        st["ts0"] = ch.randint("cfg", 0, 100000, 1)
        cfg["wrap"].append({"seq": ch.randint("cfg", 0, 400, 3), "ts": ch.randint("cfg", 0, 2000000, 3),
                            "rtx": ch.randint("cfg", 0, 40, 3)})
    return cfg, ops


def wrap_stats(cfg):
    c = copy.deepcopy(cfg)
    for st, w in zip(c["streams"], cfg["wrap"]):
        st["seq0"] = 65535 - w["seq"]
        st["rtx_seq0"] = 65535 - w.get("rtx", 0)
        st["ts0"] = 0xFFFFFFFF - w["ts"]
    return c


def gen_media(ch, spec):
    cfg, ops = media_sim.gen_media(ch, spec)
    cfg["diff_kind"] = "media"
    if cfg["mode"] != "live":
        # only first transmissions are faulted: their order does not depend on the order in which a NACK
        # lists the missing packets (aiortc lists them in numeric order, which differs across the wrap and
        # would shift every later per-datagram decision of a schedule that also faults retransmissions)
        cfg["mode"] = "live"
        cfg["s2r_first"] = dict(cfg["s2r_first"], dup=0.0, reorder=min(cfg["s2r_first"]["reorder"], 0.05),
                                reorder_max=0.02, jitter=0.0, burst_exit=0.5,
                                drop=min(cfg["s2r_first"]["drop"], 0.15), burst_enter=min(cfg["s2r_first"]["burst_enter"], 0.01))
        base = cfg["s2r_first"]["base"]
        from ..net import Profile
        cfg["s2r_other"] = Profile(base=base).to_json()
        cfg["r2s"] = Profile(base=base).to_json()
    if ch.chance("cfg", 0.3):
        # feedback kept back for seconds: retransmission requests for packets that have left the sender's history by
        # then (the history must forget them with origins at the wrap exactly as it does with small ones)
        cfg["hold_feedback"] = {"cls": "srtcp", "from": ch.choice("cfg", [1, 2, 4, 8]), "count": ch.choice("cfg", [8, 20]),
                                "dur": ch.choice("cfg", [3.0, 6.0])}
    else:
        cfg.pop("hold_feedback", None)
    cfg["origin"] = "low"
    cfg["seq0"], cfg["ts0"] = ch.randint("cfg", 0, 300, 1), ch.randint("cfg", 0, 100000, 5)
    cfg["rtx_seq0"] = 5
    cfg["pts0"] = 0
    cfg["wrap"] = {"seq": ch.randint("cfg", 8, 300, 20), "ts": ch.randint("cfg", 0, 600000, 9),
                   "rtx": ch.randint("cfg", 0, 40, 5)}
    if ch.chance("cfg", 0.3):
        # the wrapped run has one frame whose RTP timestamp is exactly 0
        cfg["wrap"]["ts"] = 3000 * ch.choice("cfg", [1, 2, 5, 9]) - 1
    cfg["hit_at"] = cfg["wrap"]["seq"] + 1      # targeted losses sit where the second run wraps
    return cfg, ops


def wrap_media(cfg):
    c = copy.deepcopy(cfg)
    c["seq0"] = 65535 - cfg["wrap"]["seq"]
    c["ts0"] = 0xFFFFFFFF - cfg["wrap"]["ts"]
    c["rtx_seq0"] = 65535 - cfg["wrap"]["rtx"]
    return c


def exec_sctp(spec, ch, cfg, ops):
    return sctp_sim.execute(spec, ch, cfg, ops, keep_log=True)


def exec_hist(cls):
    def f(spec, ch, cfg, ops):
        return execute_world(cls, spec, ch, cfg, ops, keep_log=True)
    return f


TABLE = {
    "sctp": (gen_sctp, wrap_sctp, exec_sctp, ("C01", "C02", "C06", "C13")),
    "jb": (gen_jb, wrap_jb, exec_hist(history_sim.JbWorld), ("C10",)),
    "stats": (gen_stats, wrap_stats, exec_hist(history_sim.StatsWorld), ("C18",)),
    "media": (gen_media, wrap_media, exec_hist(media_sim.MediaWorld), ("C11",)),
}


def first_difference(a, b):
    n = min(len(a), len(b))
    for i in range(n):
        if a[i] != b[i]:
            return i, a[i], b[i]
    if len(a) != len(b):
        return n, a[n] if n < len(a) else "<end of run>", b[n] if n < len(b) else "<end of run>"
    return None


def project_media(rec):
    # "(seq, t, 'frame', k, partial)" -> "'frame', k, partial)"
    return rec.split(", ", 2)[2]


def kind_of(rec):
    # "(seq, t, 'kind', ...)" -> kind
    try:
        return rec.split("'")[1]
    except Exception:  # noqa
        return "?"


def run(spec):
    spec = dict(spec)
    spec["seed_int"] = derive_seed(spec.get("seed", 0), spec["property"], spec.get("run", 0)) & 0xFFFFFFFF
    replay = spec.get("replay")
    if replay is not None:
        kind = replay["config"]["diff_kind"]
    else:
        kind = spec.get("diff_kind") or KINDS[spec.get("run", 0) % len(KINDS)]
    gen, wrap, execute, subprops = TABLE[kind]
    ch, cfg, ops = build_choices(spec, gen)
    # run A: small origins
    wa, ha = execute(spec, ch, cfg, ops)
    trace_a = {k: list(v) for k, v in ch.trace().items()}
    # run B: origins just below the wrap, same decisions
    chb = Choices(seed=None, trace=trace_a)
    wb, hb = execute(spec, chb, wrap(cfg), ops)

    sub = [v for v in wa.violations if v["property"] in subprops]
    subb = [v for v in wb.violations if v["property"] in subprops]
    known = set(spec.get("known_signatures") or ())
    wa.probes["differential_pairs"] += 1
    wa.probes["differential_pairs_" + kind] += 1
    if not (ha or hb):
        la, lb = wa.log.all, wb.log.all
        if kind == "media":
            # what reaches the decoder, in which order (not when; not how NACKs are batched)
            # (frames of the trailing keep-alive window are outside the comparison: whether the very last
            # losses are still repaired before the run ends depends on timing, not on content)
            def keep(r, n=wa.n_real):
                k = kind_of(r)
                return k in ("pli", "violation") or (k == "frame" and int(r.split(", ")[3].rstrip(")")) < n)
            la = [project_media(r) for r in la if keep(r)]
            lb = [project_media(r) for r in lb if keep(r)]
        diff = first_difference(la, lb)
        late = None
        if (diff is not None and kind == "media" and getattr(wb, "srtp_unheard_fail", None) and not getattr(wb, "srtp_other_fail", 0)
                and not getattr(wa, "srtp_unheard_fail", None) and all(q < 0x8000 for q in wb.srtp_unheard_fail.values())):
            # the wrap run's receiver never heard a source before that source's sequence number wrapped (everything it sent
            # before was lost): SRTP cannot decrypt such a stream whatever the endpoint does (the rollover counter is not
            # on the wire; aiortc itself starts every stream in the lower half of the range for this reason) - not an
            # effect of aiortc's arithmetic, the pair is outside the comparison
            wa.exempt["wrap_run_first_heard_a_source_after_its_wrap_srtp_cannot_follow"] += 1
            diff = None
        if kind == "media":
            # a packet that arrives 100 or more positions late restarts the jitter buffer (known finding F24); what
            # happens then depends on the order of the late packets, and a NACK lists them in numeric order, which
            # differs across the wrap.  Both runs in that regime: nothing to compare.  Only one of them: the late packet
            # itself is the difference.
            la100 = bool(wa.probes.get("packet_100_or_more_late"))
            lb100 = bool(wb.probes.get("packet_100_or_more_late"))
            if la100 and lb100:
                late = "both"
            elif la100 != lb100:
                late = "one"
        if (diff is not None and kind == "media" and cfg.get("hold_feedback") and late is None
                and la[:min(len(la), len(lb))] == lb[:min(len(la), len(lb))]):
            # with feedback held back, the repairs all land at the very end of the run; the jitter buffer releases one
            # frame per arriving packet (known finding, C10), so which of the last complete frames is still waiting
            # when the run stops depends on the order of the last retransmissions (numeric NACK order again)
            rest = la[len(lb):] or lb[len(la):]
            behind = wb if len(lb) < len(la) else wa          # the run that handed over fewer frames
            if rest and all(kind_of("(0, 0, " + r) == "frame" for r in rest):
                try:
                    ks = [int(r.split(", ")[1]) for r in rest]
                except (ValueError, IndexError):
                    ks = None
                # (three or fewer: as before; more: only when every packet of those frames did reach that run's jitter
                #  buffer, i.e. the frames are complete there and the run simply stopped before they were released)
                if len(rest) <= 3 or (ks is not None and behind.complete_in_buffer(ks)):
                    wa.exempt["last_frames_still_waiting_for_one_more_packet"] += 1
                    diff = None
        if late == "both":
            wa.exempt["both_runs_had_a_packet_100_or_more_late"] += 1
        elif sub:
            # the small-origin run already breaks its own property: not an origin effect
            wa.exempt["base_run_violates_" + sub[0]["property"]] += 1
        elif diff is not None:
            i, ea, eb = diff
            ka, kb = kind_of(ea), kind_of(eb)
            layer = "wire" if "dg" in (ka, kb) and ka == kb else "behaviour"
            why = ""
            if late == "one":
                why = ":a-packet-100-or-more-late-in-one-run-only"
            elif subb:
                why = ":" + subb[0]["property"] + ":" + subb[0]["signature"]
            wa.violation("C17", "%s:diverges-with-origins-at-wrap:%s%s" % (kind, layer, why),
                         "event %d: small origins %s | origins at wrap %s%s" % (
                             i, ea[:200], eb[:200], (" | wrap run: " + subb[0]["detail"][:300]) if subb else ""))
        elif subb:
            wa.violation("C17", "%s:wrap-run-violates:%s:%s" % (kind, subb[0]["property"], subb[0]["signature"]),
                         subb[0]["detail"])
        else:
            wa.probes["identical_logs"] += 1
            wa.probes["events_compared"] += len(wa.log.all)
    for k in ("abs_send_time_wrapped", "rr_after_sequence_wrap", "sequence_cycle_completed"):
        if wb.probes.get(k):
            wa.probes["wrap_run_" + k] += wb.probes[k]
    # wrap actually crossed?
    if kind == "sctp":
        try:
            for s in "AB":
                if wb.sctp[s]._local_tsn < 0x80000000:
                    wa.probes["tsn_wrap_crossed"] += 1
        except AttributeError:
            pass
    if kind == "jb" and len(wb.pkts) > cfg["wrap"]["seq"]:
        wa.probes["rtp_seq_wrap_crossed"] += 1
    if kind == "media" and wb.probes.get("rtp_sequence_wrap_crossed"):
        wa.probes["media_seq_wrap_crossed"] += 1
    wa.violations = [v for v in wa.violations if v["property"] in ("C17", "HARNESS")]
    harness = ha or hb
    if not harness:
        hv = [v for v in wb.violations if v["property"] == "HARNESS"]
        if hv:
            harness = repr(hv[0])
    if not hasattr(wa, "nontrivial"):
        wa.nontrivial = lambda: True
    if kind == "sctp":
        return finish_sctp(wa, spec, ch, cfg, ops, harness)
    return common_finish(wa, spec, ch, cfg, ops, harness)


def finish_sctp(world, spec, ch, cfg, ops, harness):
    # sctp_sim's World predates BaseWorld: adapt to the common result record
    from collections import Counter
    world.faults = Counter()
    for side in "AB":
        for k, v in world.links[side].stats.items():
            if k not in ("sent", "delivered"):
                world.faults[k] += v
    world.engine = "diff_sim"
    world.nontrivial = lambda: world.probes.get("messages_delivered", 0) > 0
    world.sample = lambda: {"messages_delivered": world.probes.get("messages_delivered", 0)}
    world.config_class = lambda: "sctp"
    return common_finish(world, spec, ch, cfg, ops, harness)
