#!/bin/bash
# usage: tools_thorough.sh <budget_s> <prop> [...]: thorough tier with a reduced budget (smoke test of the deep path)
B="$1"; shift
cd "$(dirname "$0")"
for p in "$@"; do
  out=$(VERIF_BUDGET_S=$B VERIF_WORKERS=${SOAK_WORKERS:-8} ./check $p thorough 2>&1); rc=$?
  echo "$p rc=$rc $(echo "$out" | grep -v WARNING | tail -1)"
  if [ $rc -ne 0 ]; then echo "$out" | grep -v WARNING | grep "violation:\|detail:\|VIOLATION\|HARNESS" | head -12; fi
done
