"""Determinism self-test: (VERIF_SEED, run index, code) -> identical event-log digest.

For every claimed property, run indices 0..N-1 are executed (a) twice in one process, back to back,
(b) in a fresh interpreter with another PYTHONHASHSEED, (c) in a fresh interpreter in reverse order
(so that whatever state leaks between runs of a long-lived worker shows up), and the digests are
compared.  usage: selftest/determinism.py [N per property] [property ...]
"""
import json
import os
import subprocess
import sys

ROOT = os.path.dirname(os.path.dirname(os.path.abspath(__file__)))
sys.path.insert(0, ROOT)


def digests(props, n, seed, reverse=False):
    from simrtc.seams import setup_import_path
    setup_import_path()
    from simrtc.props import REGISTRY
    out = {}
    for p in props:
        entry = REGISTRY[p]()
        idx = list(range(n))
        if reverse:
            idx.reverse()
        for i in idx:
            res = entry["fn"](dict(entry.get("spec", {}), property=p, seed=seed, run=i))
            out["%s/%d" % (p, i)] = (res.get("verdict"), res.get("digest"))
    return out


def main():
    args = sys.argv[1:]
    if args and args[0] == "--child":
        props, n, seed, rev = args[1].split(","), int(args[2]), int(args[3]), args[4] == "1"
        print("RESULT " + json.dumps(digests(props, n, seed, rev)))
        return 0
    n = int(args[0]) if args else 12
    from simrtc.props import REGISTRY
    props = [a.upper() for a in args[1:]] or sorted(REGISTRY)
    seed = int(os.environ.get("VERIF_SEED", 777))
    a = digests(props, n, seed)
    b = digests(props, n, seed)
    bad = [k for k in a if a[k] != b[k]]
    print("same process, twice: %d runs, %d differ" % (len(a), len(bad)))
    for label, hs, rev in (("fresh interpreter, PYTHONHASHSEED=12345", "12345", "0"), ("fresh interpreter, reversed order, PYTHONHASHSEED=99", "99", "1")):
        env = dict(os.environ, PYTHONHASHSEED=hs)
        r = subprocess.run([sys.executable, os.path.abspath(__file__), "--child", ",".join(props), str(n), str(seed), rev],
                           capture_output=True, text=True, env=env)
        line = next((l for l in r.stdout.splitlines() if l.startswith("RESULT ")), None)
        if line is None:
            print(label, "FAILED TO RUN", r.stderr[-500:])
            bad.append("child")
            continue
        c = {k: tuple(v) for k, v in json.loads(line[7:]).items()}
        d = [k for k in a if tuple(a[k]) != c.get(k)]
        print("%s: %d differ %s" % (label, len(d), d[:8]))
        bad += d
    print("DETERMINISM", "OK" if not bad else "BROKEN: %s" % sorted(set(bad))[:20])
    return 0 if not bad else 1


if __name__ == "__main__":
    sys.exit(main())
