"""Print a replay file in readable form: config, ops, non-default decisions, log tail."""
import json, sys
r = json.load(open(sys.argv[1]))
n = int(sys.argv[2]) if len(sys.argv) > 2 else 60
print("signature:", r["expect"]["signature"])
print("detail:", r.get("detail"))
print("config:", json.dumps(r["config"]))
for o in r["ops"]:
    print("  op", o)
for k, v in r["streams"].items():
    if k.startswith("net"):
        nd = [(i, d) for i, d in enumerate(v) if d and d[0] != 0]
        print(k, "len", len(v), "non-deliver:", nd[:30])
    else:
        print(k, "len", len(v))
for l in r.get("log_tail", [])[-n:]:
    print(l)
