#!/bin/bash
# usage: tools_confirm_mutant.sh <scratch worktree> <mutant dir with patch.diff + demo.py>
# Confirms in the scratch worktree: patch applies; demo fails with it and passes without; full suite passes with it.
WT="$1"; M="$2"
cd "$WT" || exit 2
git checkout -q -- src tests 2>/dev/null
git checkout -q --detach $(git -C /repo rev-parse HEAD)
git apply --check "$M/patch.diff" || { echo "RESULT patch-does-not-apply"; exit 1; }
PYTHONPATH=$WT/src timeout 120 /venv/bin/python "$M/demo.py" >/dev/null 2>&1; base=$?
git apply "$M/patch.diff"
PYTHONPATH=$WT/src timeout 120 /venv/bin/python "$M/demo.py" >/dev/null 2>&1; mut=$?
PYTHONPATH=$WT/src timeout 1200 /venv/bin/python -m pytest -q -p no:cacheprovider --timeout=900 -x 2>&1 | tail -1 > /tmp/confirm.$$.log; suite=$(cat /tmp/confirm.$$.log); rm -f /tmp/confirm.$$.log
git checkout -q -- src tests
echo "RESULT demo_unchanged_exit=$base demo_mutant_exit=$mut suite_with_mutant='$suite'"
