#!/bin/bash
# usage: tools_confirm_mutant.sh <scratch worktree> <mutant dir with patch.diff + demo.py>
# Confirms in the scratch worktree: patch applies; demo fails with it and passes without; full suite passes with it.
# (tests/test_contrib_signaling.py binds TCP port 1234: if another suite run overlaps, its two tcp tests fail; when
#  those are the only failures that file is repeated alone.)
WT="$1"; M="$2"
cd "$WT" || exit 2
git checkout -q -- src tests 2>/dev/null
git checkout -q --detach $(git -C /repo rev-parse HEAD)
git apply --check "$M/patch.diff" || { echo "RESULT patch-does-not-apply"; exit 1; }
PYTHONPATH=$WT/src timeout 120 /venv/bin/python "$M/demo.py" >/dev/null 2>&1; base=$?
git apply "$M/patch.diff"
PYTHONPATH=$WT/src timeout 120 /venv/bin/python "$M/demo.py" >/dev/null 2>&1; mut=$?
L=/tmp/confirm.$$.log
PYTHONPATH=$WT/src timeout 1500 /venv/bin/python -m pytest -q -p no:cacheprovider --timeout=900 -rf > $L 2>&1
suite=$(tail -1 $L)
failed=$(grep "^FAILED" $L | grep -v "test_contrib_signaling.py" | head -3 | tr '\n' ' ')
if grep -q "^FAILED" $L && [ -z "$failed" ]; then
  for i in 1 2 3; do
    sleep $((RANDOM % 20))
    r=$(PYTHONPATH=$WT/src timeout 300 /venv/bin/python -m pytest -q -p no:cacheprovider tests/test_contrib_signaling.py 2>&1 | tail -1)
    case "$r" in *failed*) ;; *passed*) suite="$suite; only test_contrib_signaling tcp tests failed (port 1234 in use by another run), alone: $r"; break;; esac
  done
fi
rm -f $L
git checkout -q -- src tests
echo "RESULT demo_unchanged_exit=$base demo_mutant_exit=$mut suite_with_mutant='$suite' other_failures='$failed'"
